"""Configuration families (DESIGN §5).  A configuration is a JSON-able dict in the harness DSL."""
import copy
import itertools

INF = float("inf")

ARR = [0.5, 1.5]          # index 0 = congesting answer
SRV = [2.0, 1.0, 0.5]
SRV2 = [2.0, 0.5]
PAT = [0.5, 1.5]


def node(c=1, cap=None, **kw):
    d = {"c": c, "cap": cap}
    d.update(kw)
    return d


def klass(arr, srv, **kw):
    d = {"arr": arr, "srv": srv}
    d.update(kw)
    return d


def cfg(name, family, nodes, classes, K=3, T=20.0, D=INF, entry=None, features=(), **kw):
    d = {"name": name, "family": family, "nodes": nodes, "classes": classes, "K": K, "D": D,
         "entry": entry or ["max_time", T], "features": sorted(features)}
    d.update(kw)
    return d


def matrix(rows):
    return {"t": "matrix", "rows": rows}


def network(*routers):
    return {"t": "network", "routers": list(routers)}


def direct(to, **kw):
    d = {"t": "direct", "to": to}
    d.update(kw)
    return d


def leave(**kw):
    d = {"t": "leave"}
    d.update(kw)
    return d


# ------------------------------------------------------------------------------------------------
# focused building blocks
# ------------------------------------------------------------------------------------------------
def single(name, family, c=1, K=3, T=20.0, arr=None, srv=None, D=INF, nodekw=None, classkw=None, features=(), **kw):
    n = node(c=c, **(nodekw or {}))
    cl = klass([arr or ARR], [srv or SRV], **(classkw or {}))
    return cfg(name, family, [n], {"A": cl}, K=K, T=T, D=D, features=features, **kw)


def tandem(name, family, c=(1, 1), caps=(None, 0), K=3, T=20.0, arr=None, srv=None, route=None, D=INF,
           nodekw=(None, None), classkw=None, features=(), **kw):
    nodes = [node(c=c[i], cap=caps[i], **(nodekw[i] or {})) for i in range(2)]
    srvm = srv or [SRV2, SRV2]
    cl = klass([arr or ARR, None], srvm, route=route or matrix([[0.0, 1.0], [0.0, 0.0]]), **(classkw or {}))
    return cfg(name, family, nodes, {"A": cl}, K=K, T=T, D=D, features=features, **kw)


def two_class_single(name, family, c=1, K=2, T=20.0, prios=(0, 1), preempt=False, D=INF, nodekw=None,
                     arrA=None, arrB=None, srvA=None, srvB=None, ckwA=None, ckwB=None, features=(), **kw):
    nk = dict(nodekw or {})
    if preempt:
        nk["preempt"] = preempt
    n = node(c=c, **nk)
    A = klass([arrA or ARR], [srvA or SRV2], prio=prios[0], **(ckwA or {}))
    B = klass([arrB or [1.0, 2.0]], [srvB or SRV2], prio=prios[1], **(ckwB or {}))
    return cfg(name, family, [n], {"A": A, "B": B}, K=K, T=T, D=D, features=features, **kw)
