"""Configuration families (DESIGN §5).  A configuration is a JSON-able dict in the harness DSL."""
import copy
import itertools

INF = float("inf")

ARR = [0.5, 1.5]          # index 0 = congesting answer
SRV = [2.0, 1.0, 0.5]
SRV2 = [2.0, 0.5]
PAT = [0.5, 1.5]


def node(c=1, cap=None, **kw):
    d = {"c": c, "cap": cap}
    d.update(kw)
    return d


def klass(arr, srv, **kw):
    d = {"arr": arr, "srv": srv}
    d.update(kw)
    return d


def cfg(name, family, nodes, classes, K=3, T=20.0, D=INF, entry=None, features=(), **kw):
    d = {"name": name, "family": family, "nodes": nodes, "classes": classes, "K": K, "D": D,
         "entry": entry or ["max_time", T], "features": sorted(features)}
    d.update(kw)
    return d


def matrix(rows):
    return {"t": "matrix", "rows": rows}


def network(*routers):
    return {"t": "network", "routers": list(routers)}


def direct(to, **kw):
    d = {"t": "direct", "to": to}
    d.update(kw)
    return d


def leave(**kw):
    d = {"t": "leave"}
    d.update(kw)
    return d


# ------------------------------------------------------------------------------------------------
# focused building blocks
# ------------------------------------------------------------------------------------------------
def single(name, family, c=1, K=3, T=20.0, arr=None, srv=None, D=INF, nodekw=None, classkw=None, features=(), **kw):
    n = node(c=c, **(nodekw or {}))
    cl = klass([arr or ARR], [srv or SRV], **(classkw or {}))
    return cfg(name, family, [n], {"A": cl}, K=K, T=T, D=D, features=features, **kw)


def tandem(name, family, c=(1, 1), caps=(None, 0), K=3, T=20.0, arr=None, srv=None, route=None, D=INF,
           nodekw=(None, None), classkw=None, features=(), **kw):
    nodes = [node(c=c[i], cap=caps[i], **(nodekw[i] or {})) for i in range(2)]
    srvm = srv or [SRV2, SRV2]
    cl = klass([arr or ARR, None], srvm, route=route or matrix([[0.0, 1.0], [0.0, 0.0]]), **(classkw or {}))
    return cfg(name, family, nodes, {"A": cl}, K=K, T=T, D=D, features=features, **kw)


def two_class_single(name, family, c=1, K=2, T=20.0, prios=(0, 1), preempt=False, D=INF, nodekw=None,
                     arrA=None, arrB=None, srvA=None, srvB=None, ckwA=None, ckwB=None, features=(), **kw):
    nk = dict(nodekw or {})
    if preempt:
        nk["preempt"] = preempt
    n = node(c=c, **nk)
    A = klass([arrA or ARR], [srvA or SRV2], prio=prios[0], **(ckwA or {}))
    B = klass([arrB or [1.0, 2.0]], [srvB or SRV2], prio=prios[1], **(ckwB or {}))
    return cfg(name, family, [n], {"A": A, "B": B}, K=K, T=T, D=D, features=features, **kw)


# ------------------------------------------------------------------------------------------------
# shared focused families (used by several properties)
# ------------------------------------------------------------------------------------------------
def noserver_upstream_block(tier, fam="F-noserver-block", ps=True, preempt=True, only=None):
    """infinite-server / slotted / PS node feeding a full finite node, simultaneous service ends (batches)"""
    K = 2 if tier == "quick" else 3
    out = []
    ups = [("inf", {"c": "inf"}), ("slotted", {"c": {"slotted": {"slots": [1.0, 2.0], "sizes": [2, 2], "capacitated": False, "preempt": False}}}),
           ("slotted-cap-resume", {"c": {"slotted": {"slots": [1.0, 1.5, 3.0], "sizes": [2, 1, 2], "capacitated": True, "preempt": "resume"}}}),
           ("slotted-cap", {"c": {"slotted": {"slots": [1.0, 1.5, 3.0], "sizes": [2, 2, 1], "capacitated": True, "preempt": False}}}),
           ("ps", {"c": "inf", "ps": True})]
    for name, nk in ups:
        if name == "ps" and not ps:
            continue
        if name == "slotted-cap-resume" and not preempt:
            continue
        if only is not None and not any(o in name for o in only):
            continue
        up = dict(nk)
        up.setdefault("cap", None)
        for fb in (0.0, 0.5):
            out.append(cfg("%s upstream block fb=%s" % (name, fb), fam, [up, node(c=1, cap=0)],
                           {"A": klass([[0.5, 1.0], None], [[1.0], [2.0, 0.5]], batch=[[2, 1], None],
                                       route=matrix([[0.0, 1.0], [fb, 0.0]]))},
                           K=K, T=9.0, D=(INF if fb == 0.0 else (4 if tier == "quick" else 6)), features=["blocking", name, "ties"]))
    return out


def per_class_per_node_reneging(tier, fam="F-renege"):
    """patience per class AND per node: A is patient at node 1 only, B at node 2 only (node 2 is a reneging node for B)"""
    K = 3 if tier == "quick" else 4
    return [cfg("renege per class per node", fam, [node(c=1), node(c=1)],
                {"A": klass([ARR, None], [[1.0, 0.5], [3.0, 1.0]], renege=[[1.0, 2.5], None], route=matrix([[0.0, 1.0], [0.0, 0.0]])),
                 "B": klass([None, {"values": [1.0, 2.0], "budget": 2}], [[1.0], [3.0, 1.0]], renege=[None, PAT], route=matrix([[0.0, 0.0], [0.0, 0.0]]))},
                K=K, T=14.0, D=5 if tier == "quick" else 8, features=["reneging", "classes"])]


def ageing_priorities(tier, fam="F-ageing"):
    """three priority levels, timed class changes A -> B -> C (a customer can change priority twice while waiting)"""
    out = []
    for pre in (False, "resume"):
        out.append(cfg("ageing A>B>C preempt=%s" % pre, fam, [node(c=1, preempt=pre, discipline="FIFO") if pre else node(c=1, discipline="FIFO")],
                       {"A": klass([{"values": [0.5, 0.25], "budget": 3}], [[6.0, 2.0]], prio=2, cct={"B": [0.5, 1.0]}),
                        "B": klass([None], [[6.0, 2.0]], prio=1, cct={"C": [0.5, 1.5]}),
                        "C": klass([None], [[6.0, 2.0]], prio=0)},
                       K=3, T=12.0, D=4 if tier == "quick" else 7, features=["cct", "priorities", "ageing"]))
    return out


def sched_preempt_chain(tier, fam="F-sched-preempt-chain"):
    """pre-emptive schedule upstream of a chain whose last node is kept full: re-routed / interrupted customers are
    later blocked and released; a [2,1] schedule leaves an interrupted customer waiting while the only server is held
    by a blocked one"""
    out = []
    for opt in ("reroute", "resume", "restart"):
        out.append(cfg("chain3 sched %s -> c1 -> full" % opt, fam,
                       [node(c={"sched": {"numbers": [1, 0], "ends": [2.0, 3.0], "preempt": opt}}), node(c=1), node(c=1, cap=0)],
                       {"A": klass([{"values": [0.5, 1.5], "budget": 2}, None, {"values": [0.5], "budget": 1}], [[2.0, 1.0], [0.5, 1.0], [4.0, 2.0]],
                                   route=matrix([[0.0, 1.0, 0.0], [0.0, 0.0, 1.0], [0.0, 0.0, 0.0]]))},
                       K=2, T=16.0, features=["blocking", "schedule", "preempt_sched"]))
    for opt in ("resume", "restart", "resample"):
        out.append(cfg("sched [2,1] %s + block" % opt, fam,
                       [node(c={"sched": {"numbers": [2, 1], "ends": [2.0, 8.0], "preempt": opt}}), node(c=1, cap=0)],
                       {"A": klass([{"values": [0.5, 0.25], "budget": 3 if tier == "quick" else 4}, {"values": [0.25], "budget": 1}], [[2.0, 3.0], [6.0, 3.0]],
                                   route=matrix([[0.0, 1.0], [0.0, 0.0]]))},
                       K=3, T=16.0, D=5 if tier == "quick" else 8, features=["blocking", "schedule", "preempt_sched"]))
    return out


def sched_preempt_two_upstream(tier, fam="F-sched-preempt-block3", opts=("resume", "restart", "resample")):
    """two upstream nodes (one with a pre-emptive schedule) blocked towards one destination that is kept full by
    its own external arrival; servers return while the customer is still blocked, then the destination frees"""
    out = []
    k = 1 if tier == "quick" else 2
    for opt in opts:
        out.append(cfg("two upstream (sched %s) one dest" % opt, fam,
                       [node(c={"sched": {"numbers": [1, 0], "ends": [2.0, 3.0], "preempt": opt}}), node(c=1), node(c=1, cap=0)],
                       {"A": klass([{"values": [0.5, 1.0], "budget": k}, {"values": [0.5, 1.0], "budget": k}, {"values": [0.5], "budget": 1}],
                                   [[1.0, 3.0], [0.5, 1.0], [3.0, 4.0]],
                                   route=matrix([[0.0, 0.0, 1.0], [0.0, 0.0, 1.0], [0.0, 0.0, 0.0]]))},
                       K=k, T=16.0, features=["blocking", "schedule", "preempt_sched"]))
    return out


def sched_preempt_classchange_block(tier, fam="F-sched-preempt-ccm-block"):
    """pre-emptive schedule + after-service class change that alters the priority + a full destination: a blocked
    customer already carries its NEW class/priority when its server is withdrawn and returns"""
    ccm = {"A": {"A": 0.5, "B": 0.5}, "B": {"A": 0.5, "B": 0.5}}
    out = []
    for opt in ("resume", "restart", "resample"):
        for pre in (False, "resume"):
            nk = {"preempt": pre} if pre else {}
            out.append(cfg("sched %s + ccm prio + block, prio-preempt=%s" % (opt, pre), fam,
                           [node(c={"sched": {"numbers": [1, 0], "ends": [2.0, 3.0], "preempt": opt}}, class_change=ccm, **nk), node(c=1, cap=0)],
                           {"A": klass([{"values": [0.5, 1.0], "budget": 3}, {"values": [0.25], "budget": 1}], [[1.0, 0.5], [3.0, 4.0]], prio=0,
                                       route=matrix([[0.0, 1.0], [0.0, 0.0]])),
                            "B": klass([None, None], [[1.0, 0.5], [3.0, 4.0]], prio=1, route=matrix([[0.0, 1.0], [0.0, 0.0]]))},
                           K=3, T=16.0, D=6 if tier == "quick" else 9, features=["blocking", "schedule", "preempt_sched", "ccm", "priorities"]))
    return out


def mixed_tandem(tier, fam="F-mixed-tandem", kinds=("inf", "sched", "slotted", "slotted-cap", "ps", "c=2"), c2=(1, 2)):
    """a node of every kind feeding an ordinary finite-server node where customers have to wait: whatever a visit
    leaves on the customer (server marker, service time, flags) meets the ordinary accept/start path"""
    K = 3 if tier == "quick" else 4
    ups = {"inf": "inf", "sched": {"sched": {"numbers": [1, 0, 2], "ends": [1.5, 2.5, 4.0], "preempt": False}},
           "slotted": {"slotted": {"slots": [1.0, 1.5, 3.0], "sizes": [2, 2, 1], "capacitated": False, "preempt": False}},
           "slotted-cap": {"slotted": {"slots": [1.0, 1.5, 3.0], "sizes": [2, 2, 1], "capacitated": True, "preempt": False}},
           "ps": "inf", "c=2": 2}
    out = []
    for nm in kinds:
        for k2 in c2:
            nk = ({"ps": True} if nm == "ps" else None, None)
            out.append(tandem("%s -> c=%d with waiting" % (nm, k2), fam, c=(ups[nm], k2), caps=(None, None), K=K, T=12.0, arr=[0.5, 0.25],
                              srv=[[1.0, 0.5], [2.0, 0.75]], nodekw=nk, D=5 if tier == "quick" else 8, features=[nm, "tandem"]))
    return out


# ------------------------------------------------------------------------------------------------
# explicit-state families: unbounded arrival streams, populations bounded by system/queue capacities,
# time-homogeneous dyadic menus => finitely many canonical states (DESIGN 3.6)
# ------------------------------------------------------------------------------------------------
BIG = 1.0e9


def explicit_basic(tier, fam="E"):
    small = tier == "quick"
    out = [single("E c=1 syscap=2", fam, c=1, K=None, T=BIG, system_capacity=2, features=["explicit"])]
    if small:
        return out
    out.append(single("E c=2 syscap=3", fam, c=2, K=None, T=BIG, system_capacity=3, features=["explicit"]))
    out.append(tandem("E tandem block syscap=3", fam, c=(1, 1), caps=(None, 0), K=None, T=BIG, system_capacity=3, features=["explicit", "blocking"]))
    out.append(tandem("E tandem c=(2,1) cap=1 syscap=4", fam, c=(2, 1), caps=(None, 1), K=None, T=BIG, system_capacity=4, features=["explicit", "blocking"]))
    out.append(single("E c=2 renege syscap=3", fam, c=2, K=None, T=BIG, system_capacity=3, classkw={"renege": [PAT]}, features=["explicit", "reneging"]))
    # (a low-priority customer can starve for ever: its waiting time is unbounded, the state space infinite -> bounded search)
    out.append(two_class_single("E prio-preempt resume syscap=3", fam, c=1, K=None, T=BIG, prios=(1, 0), preempt="resume", system_capacity=3,
                                max_states=120000, features=["explicit", "preempt_prio"]))
    out.append(single("E sched [1,0,2] syscap=3", fam, K=None, T=BIG, system_capacity=3,
                      c={"sched": {"numbers": [1, 0, 2], "ends": [1.5, 2.5, 4.0], "preempt": False}}, features=["explicit", "schedule"]))
    out.append(single("E sched resume [1,0,2] syscap=3", fam, K=None, T=BIG, system_capacity=3,
                      c={"sched": {"numbers": [1, 0, 2], "ends": [1.5, 2.5, 4.0], "preempt": "resume"}}, features=["explicit", "schedule"]))
    return out


def explicit_small(kind, fam="E"):
    """one small property-specific network for the quick tier's explicit-state search"""
    if kind == "renege":
        return single("E c=1 renege syscap=2", fam, c=1, K=None, T=BIG, system_capacity=2, classkw={"renege": [PAT]}, features=["explicit", "reneging"])
    if kind == "sched":
        return single("E sched [1,0] syscap=2", fam, K=None, T=BIG, system_capacity=2,
                      c={"sched": {"numbers": [1, 0], "ends": [1.5, 2.5], "preempt": False}}, features=["explicit", "schedule"])
    if kind == "sched-resume":
        return single("E sched resume [1,0] syscap=2", fam, K=None, T=BIG, system_capacity=2,
                      c={"sched": {"numbers": [1, 0], "ends": [1.5, 2.5], "preempt": "resume"}}, features=["explicit", "schedule"])
    if kind == "preempt":
        return two_class_single("E prio-preempt resume syscap=2", fam, c=1, K=None, T=BIG, prios=(1, 0), preempt="resume", system_capacity=2,
                                features=["explicit", "preempt_prio"])
    raise ValueError(kind)
