"""Developer tool: per-configuration tree sizes.  python -m ciwmc.sizes C01 quick [cap] [name-filter]"""
import sys, time, os
os.environ.setdefault("PYTHONHASHSEED", "0")
from . import explore
import importlib


def main():
    pid, tier = sys.argv[1], sys.argv[2]
    cap = int(sys.argv[3]) if len(sys.argv) > 3 else 200000
    flt = sys.argv[4] if len(sys.argv) > 4 else ""
    spec = importlib.import_module("ciwmc.props." + pid.lower()).SPEC
    cfgs = [dict(c, max_exec=cap) for c in spec.families(tier) if flt in c["name"]]
    for c in cfgs:
        t = time.time()
        tot = explore.explore(spec, [c], account=getattr(spec, "account", True))
        print("%-40s D=%-4s n=%-8d %s depth=%d st=%d nontriv=%d %.1fs viol=%d %s %s" % (
            c["name"], c.get("D"), tot["evaluations"], "CAPPED" if tot["capped"] else "", tot["maxdepth"],
            len(tot["states"]), len(tot["nontrivial"]), time.time() - t, len(tot["viol"]), tot["status"],
            tot["harness_errors"][:1] or ""), flush=True)


main()
