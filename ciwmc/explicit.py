"""Explicit-state engine (DESIGN §3.6): breadth-first search over the canonical states of the real engine.

A state is represented by an answer history that reaches it (live Simulation objects cannot be copied); expanding a
state replays its history on a fresh Simulation with the event bound set one event further and enumerates EVERY answer
sequence of that one additional event.  States are deduplicated on (canonical state, pending tie-break pick).  The
monitors of the property run on every replay, so every transition of the reachable graph is judged.

The search is complete (coverage.exhaustive) when the frontier empties: then every history of ANY length over the
alphabet has been covered up to state equivalence.
"""
import time
import multiprocessing as mp

from . import env, harness, explore
from .canon import canon, digest as state_digest

INF = float("inf")
SPEC = None
CFG = None


class _Init(object):
    """canonical state before the first event (one per combination of initial inter-arrival answers)"""

    def __init__(self, sink):
        self.sink = sink

    def on_init(self, Q):
        self.sink.append(state_digest(canon(Q)))


def _expand(item):
    """all one-event successors of the state reached by `hist` after `depth` events"""
    hist, depth = item
    cfg = dict(CFG)
    cfg["max_events"] = depth + 1
    out = {"children": [], "viol": [], "known": {}, "n": 0, "terminal": 0, "harness_error": None, "init": []}
    stack = [tuple(hist)]
    try:
        while stack:
            p = stack.pop()
            mons = list(SPEC.monitors(cfg))
            if depth == 0:
                mons.append(_Init(out["init"]))
            res = harness.run(cfg, p, mons, keep_Q=True)
            out["n"] += 1
            ch = tuple(res.choices)
            for v in res.violations:
                vr = {"cfg": CFG.get("_index", 0), "choices": list(ch), "v": v.as_dict(), "cfg_override": {"max_events": depth + 1}}
                f = explore.match_finding(explore.FINDINGS, SPEC.id, vr, cfg)
                if f is not None:
                    k = out["known"].setdefault(f["id"], {"n": 0, "what": f["what"]})
                    k["n"] += 1
                elif len(out["viol"]) < 10:
                    out["viol"].append(vr)
            if res.nevents <= depth or res.status == "exception":
                out["terminal"] += 1          # the run ended (horizon / nothing pending / internal error) before one more event
            else:
                pick = ch[-1] if res.tags and res.tags[-1] == "pick:find_next_active_node" else None
                ck = state_digest(canon(res.Q))
                key = state_digest((ck, pick))
                out["children"].append((key, ch, ck))
            res.Q = None
            for i in range(len(ch) - 1, len(p) - 1, -1):
                for alt in range(res.arity[i] - 1, 0, -1):
                    stack.append(ch[:i] + (alt,))
    except env.HarnessError as e:
        out["harness_error"] = str(e)
    return out


def search(spec, cfg, max_states=200000, max_depth=400, log=None):
    global SPEC, CFG
    SPEC, CFG = spec, cfg
    explore.FINDINGS = explore.load_findings()
    t0 = time.time()
    # initial state: zero events executed
    c0 = dict(cfg)
    c0["max_events"] = 10 ** 9
    seen = {}
    canon_seen = set()
    frontier = [((), 0)]
    tot = {"states": 0, "transitions": 0, "executions": 0, "viol": [], "known": {}, "depth": 0, "complete": False,
           "harness_errors": [], "terminal": 0, "levels": []}
    ctx = mp.get_context("fork")
    nw = explore.NWORKERS
    pool = ctx.Pool(nw) if nw > 1 else None
    try:
        depth = 0
        while frontier and depth < max_depth and len(seen) < max_states and not tot["viol"]:
            results = pool.map(_expand, frontier, chunksize=max(1, len(frontier) // (nw * 8))) if pool else [_expand(f) for f in frontier]
            nxt = []
            for r in results:
                if r["harness_error"]:
                    tot["harness_errors"].append(r["harness_error"])
                tot["executions"] += r["n"]
                tot["transitions"] += len(r["children"]) + r["terminal"]
                tot["terminal"] += r["terminal"]
                tot["viol"].extend(r["viol"])
                for k, v in r["known"].items():
                    kk = tot["known"].setdefault(k, {"n": 0, "what": v["what"]})
                    kk["n"] += v["n"]
                canon_seen.update(r["init"])
                for key, ch, ck in r["children"]:
                    canon_seen.add(ck)
                    if key not in seen:
                        seen[key] = (len(ch), depth + 1)
                        nxt.append((ch, depth + 1))
            tot["levels"].append(len(nxt))
            depth += 1
            frontier = nxt
            if tot["harness_errors"]:
                break
        tot["complete"] = not frontier and not tot["viol"] and not tot["harness_errors"]
        tot["depth"] = depth
    finally:
        if pool is not None:
            pool.terminate()
            pool.join()
    tot["states"] = len(seen) + 1
    tot["canon_seen"] = canon_seen
    tot["wall_s"] = time.time() - t0
    return tot
