"""Build a real ciw.Simulation from a configuration (small DSL), wire the observation seams
(all public extension points) to a Hub, and run ONE execution under a choice prefix.

Import order matters: ciwmc.env.install() before ciw.
"""
import os
import sys
import copy
import math

from . import env

env.install()

_target = os.environ.get("CIWMC_TARGET", "/repo")
if _target not in sys.path:
    sys.path.insert(0, _target)
import ciw  # noqa: E402

if not os.path.realpath(ciw.__file__).startswith(os.path.realpath(_target) + os.sep):
    raise env.HarnessError("ciw imported from %s, expected under %s" % (ciw.__file__, _target))
env.verify_ownership()

from ciw import trackers as _trackers  # noqa: E402
from ciw import deadlock as _deadlock  # noqa: E402
from ciw import routing as _routing    # noqa: E402

INF = float("inf")
HUB = None


class Violation(object):
    __slots__ = ("prop", "clause", "detail", "event", "t")

    def __init__(self, prop, clause, detail, event, t):
        self.prop, self.clause, self.detail, self.event, self.t = prop, clause, detail, event, t

    def as_dict(self):
        return {"property": self.prop, "clause": self.clause, "detail": self.detail,
                "event_index": self.event, "time": _js(self.t)}


def _js(x):
    """JSON-able rendering of a value observed in ciw."""
    if isinstance(x, bool) or x is None or isinstance(x, (int, str)):
        return x
    if isinstance(x, float):
        if x != x:
            return "nan"
        if x in (INF, -INF):
            return "inf" if x > 0 else "-inf"
        return x
    if isinstance(x, (list, tuple)):
        return [_js(i) for i in x]
    if isinstance(x, dict):
        return {str(k): _js(v) for k, v in x.items()}
    return repr(x)


class Hub(object):
    """Per-execution dispatcher between the seams and the monitors."""

    def __init__(self, cfg, ctx, monitors):
        self.cfg = cfg
        self.ctx = ctx
        self.Q = None
        self.nevents = 0
        self.events = []          # (t, node_id, event_type) for every executed event
        self.violations = []
        self.max_events = cfg.get("max_events", 150)
        self.entry = cfg.get("entry", ["max_time", 20.0])
        self.truncated = False
        self.monitors = monitors
        self.in_event = False
        self.cur_event = None
        self._recs_seen = {}
        self._exit_seen = 0
        self.flags = set()        # feature-fired flags (blocked, preempted, reneged, ...)
        for m in monitors:
            m.hub = self
        def hooks(name):
            return [getattr(m, name) for m in monitors if hasattr(m, name)]
        self.h_init = hooks("on_init")
        self.h_pre = hooks("on_pre_event")
        self.h_boundary = hooks("on_boundary")
        self.h_accept = hooks("on_accept")
        self.h_block = hooks("on_block")
        self.h_release = hooks("on_release")
        self.h_renege = hooks("on_renege")
        self.h_classchange = hooks("on_classchange")
        self.h_attach = hooks("on_attach")
        self.h_detach = hooks("on_detach")
        self.h_blockage = hooks("on_blockage")
        self.h_sample = hooks("on_sample")
        self.h_discipline = hooks("on_discipline")
        self.h_route = hooks("on_route")
        self.h_baulk = hooks("on_baulk")
        self.h_end = hooks("on_end")

    # ---- verdicts ---------------------------------------------------------------------------
    def violate(self, prop, clause, detail):
        if len(self.violations) < 8:
            t = self.Q.current_time if self.Q is not None else None
            self.violations.append(Violation(prop, clause, detail, self.nevents, t))

    def _call(self, hooks, *a):
        for h in hooks:
            try:
                h(*a)
            except (env.HarnessError, env.BoundReached):
                raise
            except Exception as e:  # a bug in a monitor is a harness error, never a violation
                import traceback
                raise env.HarnessError("monitor hook %s failed: %r\n%s" % (h, e, traceback.format_exc()))

    # ---- seams ------------------------------------------------------------------------------
    def init(self, Q):
        self.Q = Q
        self.ctx.Q = Q
        self._call(self.h_init, Q)

    def pre_event(self, node):
        et = "arrival" if node is self.Q.nodes[0] else node.next_event_type
        self.cur_event = (self.Q.current_time, getattr(node, "id_number", 0), et)
        self.in_event = True
        self._call(self.h_pre, node, et)

    def boundary(self):
        if not self.in_event:
            # exact mode: ciw forces its own node classes, the pre-event seam is unavailable
            self.cur_event = (self.Q.current_time, None, None)
        self.in_event = False
        self.nevents += 1
        self.events.append(self.cur_event)
        self._call(self.h_boundary, self.Q)
        if self.nevents >= self.max_events:
            self.truncated = True
            raise env.BoundReached("max_events")
        if self.entry[0] != "max_time":
            if all(nd.next_event_date == INF for nd in self.Q.nodes[:-1]):
                self.truncated = True
                raise env.BoundReached("no pending event")

    def new_records(self):
        """(individual, record) pairs written since the previous event boundary (same list for every monitor)."""
        if getattr(self, "_nr_at", None) == self.nevents:
            return self._nr_cache
        out = self._new_records()
        self._nr_at = self.nevents
        self._nr_cache = out
        return out

    def _new_records(self):
        out = []
        Q = self.Q
        seen = self._recs_seen
        for nd in Q.transitive_nodes:
            for ind in nd.all_individuals:
                n = len(ind.data_records)
                k = seen.get(ind.id_number, 0)
                if n > k:
                    for r in ind.data_records[k:]:
                        out.append((ind, r))
                    seen[ind.id_number] = n
        ex = Q.nodes[-1].all_individuals
        for ind in ex[self._exit_seen:]:
            n = len(ind.data_records)
            k = seen.get(ind.id_number, 0)
            if n > k:
                for r in ind.data_records[k:]:
                    out.append((ind, r))
                seen[ind.id_number] = n
        self._exit_seen = len(ex)
        return out

    def all_customers(self):
        Q = self.Q
        for nd in Q.transitive_nodes:
            for ind in nd.all_individuals:
                yield nd, ind
        ex = Q.nodes[-1]
        for ind in ex.all_individuals:
            yield ex, ind


# ------------------------------------------------------------------------------------------------
# Menu distributions (subclass of the public ciw.dists.Distribution)
# ------------------------------------------------------------------------------------------------
class Menu(ciw.dists.Distribution):
    """sample() asks the explorer for an index into a finite menu and logs the sample."""

    def __init__(self, kind, node, cls, values, budget=None, by_t=None, by_class=None, script=None):
        self.kind = kind
        self.node = node
        self.cls = cls
        self.values = list(values)
        self.budget = budget
        self.by_t = by_t          # optional [(t_threshold, values)], time dependent menus
        self.by_class = by_class  # optional {customer_class: values}, state dependent menus
        self.script = script      # optional scripted answers (twin runs): list by draw number, or {customer id: value}
        self.n = 0
        self.tag = "%s%s%s" % (kind, node, cls)

    def __repr__(self):
        return "Menu(%s)" % self.tag

    def __deepcopy__(self, memo):
        # ciw deep-copies arrival/service/batching distributions per Simulation; menus are immutable
        # apart from the draw counter, so a shallow clone is an exact deep copy
        m = Menu.__new__(Menu)
        m.__dict__.update(self.__dict__)
        return m

    def sample(self, t=None, ind=None):
        self.n += 1
        if self.script is not None:
            if isinstance(self.script, dict):
                v = self.script[str(ind.id_number)] if str(ind.id_number) in self.script else self.script[ind.id_number]
            else:
                v = self.script[self.n - 1] if self.n - 1 < len(self.script) else INF
        elif self.budget is not None and self.n > self.budget:
            v = INF
        else:
            vals = self.values
            if self.by_t is not None and t is not None:
                for thr, vs in self.by_t:
                    if t >= thr:
                        vals = vs
            if self.by_class is not None and ind is not None:
                vals = self.by_class.get(ind.customer_class, vals)
            v = vals[env.CTX.choose(len(vals), self.tag)]
        hub = HUB
        env.CTX.samples.append((self.kind, self.node, self.cls, t, ind.id_number if ind is not None else None, v))
        if hub.h_sample:
            hub._call(hub.h_sample, self, t, ind, v)
        return v


# ------------------------------------------------------------------------------------------------
# Seam classes (each only calls super() and reports to the hub)
# ------------------------------------------------------------------------------------------------
def _mk_node_class(base):
    def have_event(self):
        HUB.pre_event(self)
        return base.have_event(self)
    return type("Mon" + base.__name__, (base,), {"have_event": have_event})


MonNode = _mk_node_class(ciw.Node)
MonPSNode = _mk_node_class(ciw.PSNode)
MonArrivalNode = _mk_node_class(ciw.ArrivalNode)
MonExactNode = _mk_node_class(ciw.ExactNode)
MonExactArrivalNode = _mk_node_class(ciw.ExactArrivalNode)

_tracker_cache = {}


def _mk_tracker_class(base):
    if base in _tracker_cache:
        return _tracker_cache[base]

    def initialise(self, simulation):
        base.initialise(self, simulation)
        HUB.init(simulation)

    def timestamp(self):
        base.timestamp(self)
        HUB.boundary()

    def hash_state(self):
        h = base.hash_state(self)
        if HUB is not None and HUB.entry[0] == "deadlock" and sys._getframe(1).f_code.co_name == "simulate_until_deadlock":
            HUB.last_hash = h
            HUB.boundary()
        return h

    def change_state_accept(self, node, ind):
        base.change_state_accept(self, node, ind)
        hub = HUB
        if hub.h_accept:
            hub._call(hub.h_accept, node, ind)

    def change_state_block(self, node, destination, ind):
        base.change_state_block(self, node, destination, ind)
        hub = HUB
        hub.flags.add("blocked")
        if hub.h_block:
            hub._call(hub.h_block, node, destination, ind)

    def change_state_release(self, node, destination, ind, blocked):
        base.change_state_release(self, node, destination, ind, blocked)
        hub = HUB
        if hub.h_release:
            hub._call(hub.h_release, node, destination, ind, blocked)

    def change_state_renege(self, node, destination, ind, blocked):
        # the base implementation forwards to change_state_release; suppress the duplicate report
        hub = HUB
        saved = hub.h_release
        hub.h_release = []
        try:
            base.change_state_renege(self, node, destination, ind, blocked)
        finally:
            hub.h_release = saved
        hub.flags.add("reneged")
        if hub.h_renege:
            hub._call(hub.h_renege, node, destination, ind)

    def change_state_classchange(self, node, ind):
        base.change_state_classchange(self, node, ind)
        hub = HUB
        hub.flags.add("classchange_waiting")
        if hub.h_classchange:
            hub._call(hub.h_classchange, node, ind)

    cls = type("Mon" + base.__name__, (base,), dict(
        initialise=initialise, timestamp=timestamp, hash_state=hash_state,
        change_state_accept=change_state_accept, change_state_block=change_state_block,
        change_state_release=change_state_release, change_state_renege=change_state_renege,
        change_state_classchange=change_state_classchange))
    _tracker_cache[base] = cls
    return cls


_detector_cache = {}


def _mk_detector_class(base):
    if base in _detector_cache:
        return _detector_cache[base]

    def action_at_attach_server(self, node, server, individual):
        base.action_at_attach_server(self, node, server, individual)
        hub = HUB
        if hub.h_attach:
            hub._call(hub.h_attach, node, server, individual)

    def action_at_detatch_server(self, server):
        hub = HUB
        if hub.h_detach:
            hub._call(hub.h_detach, server)
        base.action_at_detatch_server(self, server)

    def action_at_blockage(self, individual, next_node):
        base.action_at_blockage(self, individual, next_node)
        hub = HUB
        if hub.h_blockage:
            hub._call(hub.h_blockage, individual, next_node)

    cls = type("Mon" + base.__name__, (base,), dict(
        action_at_attach_server=action_at_attach_server,
        action_at_detatch_server=action_at_detatch_server,
        action_at_blockage=action_at_blockage))
    _detector_cache[base] = cls
    return cls


_router_cache = {}


def _mk_router_class(base):
    """Top-level routing object (NetworkRouting family): report every decision."""
    if base in _router_cache:
        return _router_cache[base]

    def next_node(self, ind, node_id):
        pre = _route_pre(self, ind)
        nd = base.next_node(self, ind, node_id)
        hub = HUB
        if hub.h_route:
            hub._call(hub.h_route, "next", ind, node_id, nd, pre)
        return nd

    def next_node_for_rerouting(self, ind, node_id):
        pre = _route_pre(self, ind)
        hub = HUB
        saved = hub.h_route
        hub.h_route = []     # ProcessBased forwards to next_node: report once, as 'reroute'
        try:
            nd = base.next_node_for_rerouting(self, ind, node_id)
        finally:
            hub.h_route = saved
        hub.flags.add("rerouted")
        if hub.h_route:
            hub._call(hub.h_route, "reroute", ind, node_id, nd, pre)
        return nd

    def next_node_for_jockeying(self, ind, node_id):
        nd = base.next_node_for_jockeying(self, ind, node_id)
        hub = HUB
        if hub.h_route:
            hub._call(hub.h_route, "jockey", ind, node_id, nd, None)
        return nd

    cls = type("Mon" + base.__name__, (base,), dict(
        next_node=next_node, next_node_for_rerouting=next_node_for_rerouting,
        next_node_for_jockeying=next_node_for_jockeying))
    _router_cache[base] = cls
    return cls


def _route_pre(router, ind):
    r = getattr(ind, "route", None)
    if r is None:
        return None
    return copy.deepcopy(r)


class JockeyDirect(_routing.Direct):
    """User-defined node router: Direct, but reneging customers jockey to node `jockey_to`."""

    def __init__(self, to, jockey_to):
        super().__init__(to=to)
        self.jockey_to = jockey_to

    def next_node_for_jockeying(self, ind):
        return self.simulation.nodes[self.jockey_to]


class JockeyLeave(_routing.Leave):
    def __init__(self, jockey_to):
        self.jockey_to = jockey_to

    def next_node_for_jockeying(self, ind):
        return self.simulation.nodes[self.jockey_to]


class RerouteDirect(_routing.Direct):
    """Direct, but pre-empted customers are rerouted to node `reroute_to`."""

    def __init__(self, to, reroute_to):
        super().__init__(to=to)
        self.reroute_to = reroute_to

    def next_node_for_rerouting(self, ind):
        return self.simulation.nodes[self.reroute_to]


def _node_router(spec):
    t = spec["t"]
    if t == "direct":
        if "jockey_to" in spec:
            return JockeyDirect(spec["to"], spec["jockey_to"])
        if "reroute_to" in spec:
            return RerouteDirect(spec["to"], spec["reroute_to"])
        return _routing.Direct(to=spec["to"])
    if t == "leave":
        if "jockey_to" in spec:
            return JockeyLeave(spec["jockey_to"])
        return _routing.Leave()
    if t == "cycle":
        return _routing.Cycle(cycle=list(spec["cycle"]))
    if t == "prob":
        return _routing.Probabilistic(destinations=list(spec["dest"]), probs=[float(p) for p in spec["probs"]])
    if t == "jsq":
        return _routing.JoinShortestQueue(destinations=list(spec["dest"]), tie_break=spec.get("tie", "random"))
    if t == "lb":
        return _routing.LoadBalancing(destinations=list(spec["dest"]), tie_break=spec.get("tie", "random"))
    raise env.HarnessError("unknown node router %r" % (spec,))


def _route_function(cname, routes):
    def route_function(ind, simulation):
        k = env.CTX.choose(len(routes), "route" + cname)
        return copy.deepcopy(routes[k])
    return route_function


def _router(cname, spec, nnodes):
    if spec is None:
        spec = {"t": "matrix", "rows": [[0.0] * nnodes for _ in range(nnodes)]}
    t = spec["t"]
    if t == "matrix":
        return _mk_router_class(_routing.TransitionMatrix)(transition_matrix=[[float(p) for p in r] for r in spec["rows"]])
    if t == "network":
        return _mk_router_class(_routing.NetworkRouting)(routers=[_node_router(s) for s in spec["routers"]])
    if t == "process":
        return _mk_router_class(_routing.ProcessBased)(_route_function(cname, spec["routes"]))
    if t == "flex":
        return _mk_router_class(_routing.FlexibleProcessBased)(
            _route_function(cname, spec["routes"]), spec["rule"], spec["choice"])
    raise env.HarnessError("unknown routing spec %r" % (spec,))


_DISC = {"FIFO": ciw.disciplines.FIFO, "LIFO": ciw.disciplines.LIFO, "SIRO": ciw.disciplines.SIRO}


def _discipline(node_id, name):
    base = _DISC[name]

    def disc(individuals, t):
        pick = base(individuals, t)
        hub = HUB
        if hub.h_discipline:
            hub._call(hub.h_discipline, node_id, name, individuals, t, pick)
        return pick
    disc.__name__ = name
    return disc


def _baulk(node_id, cname, spec):
    """spec: {"by_n": [p0, p1, p2...]} deterministic in n, or {"menu": [..]} chosen by the explorer."""
    def f(n, Q=None, next_ind=None, next_node=None):
        if "by_n" in spec:
            tbl = spec["by_n"]
            p = tbl[min(n, len(tbl) - 1)] if isinstance(n, int) and n >= 0 else tbl[-1]
        else:
            p = spec["menu"][env.CTX.choose(len(spec["menu"]), "baulkp%d%s" % (node_id, cname))]
        hub = HUB
        if hub.h_baulk:
            hub._call(hub.h_baulk, n, Q, next_ind, next_node, p)
        return p
    return f


def _server_priority(name):
    if name == "last":
        return lambda srv, ind: -srv.id_number
    if name == "less_busy":
        return lambda srv, ind: srv.busy_time
    if name == "less_utilised":
        return lambda srv, ind: (srv.busy_time / srv.total_time) if srv.total_time else 0.0
    raise env.HarnessError("unknown server priority %r" % name)


def _servers(spec):
    if spec == "inf":
        return INF
    if isinstance(spec, int):
        return spec
    if "sched" in spec:
        s = spec["sched"]
        return ciw.Schedule(numbers_of_servers=list(s["numbers"]), shift_end_dates=list(s["ends"]),
                            preemption=s.get("preempt", False), offset=float(s.get("offset", 0.0)))
    if "slotted" in spec:
        s = spec["slotted"]
        return ciw.Slotted(slots=list(s["slots"]), slot_sizes=list(s["sizes"]),
                           capacitated=s.get("capacitated", False), preemption=s.get("preempt", False),
                           offset=float(s.get("offset", 0.0)))
    raise env.HarnessError("unknown servers spec %r" % (spec,))


def _cap(x):
    return INF if x in ("inf", None) else x


def build_network(cfg):
    nodes = cfg["nodes"]
    nn = len(nodes)
    classes = cfg["classes"]
    cnames = sorted(classes)
    rnames = list(reversed(cnames))   # per-class dicts are built in reverse-sorted key order (valid input)
    K = cfg.get("K")
    arr, srv, bat, ren, rout, baulk, prio = {}, {}, {}, {}, {}, {}, {}
    any_bat = any("batch" in c for c in classes.values())
    any_ren = any("renege" in c for c in classes.values())
    any_baulk = any("baulk" in c for c in classes.values())
    any_route = True   # always install a monitored top-level router (default: all-zero transition matrix)
    for cn in rnames:
        c = classes[cn]
        arr[cn] = []
        for i in range(nn):
            m = c["arr"][i] if i < len(c["arr"]) else None
            if m is None:
                arr[cn].append(None)
            elif isinstance(m, dict):
                arr[cn].append(Menu("arr", i + 1, cn, m.get("values", []), budget=m.get("budget", K), by_t=m.get("by_t"), script=m.get("script")))
            else:
                arr[cn].append(Menu("arr", i + 1, cn, m, budget=K))
        srv[cn] = []
        for i in range(nn):
            m = c["srv"][i]
            if isinstance(m, dict):
                srv[cn].append(Menu("srv", i + 1, cn, m.get("values", []), by_t=m.get("by_t"), by_class=m.get("by_class"), script=m.get("script")))
            else:
                srv[cn].append(Menu("srv", i + 1, cn, m))
        if any_bat:
            bat[cn] = [Menu("bat", i + 1, cn, (c.get("batch") or [None] * nn)[i] or [1]) for i in range(nn)]
        if any_ren:
            r = c.get("renege") or [None] * nn
            ren[cn] = [None if r[i] is None else Menu("ren", i + 1, cn, r[i]) for i in range(nn)]
        if any_baulk:
            b = c.get("baulk") or [None] * nn
            baulk[cn] = [None if b[i] is None else _baulk(i + 1, cn, b[i]) for i in range(nn)]
        if any_route:
            rout[cn] = _router(cn, c.get("route"), nn)
        prio[cn] = c.get("prio", 0)
    kw = dict(
        arrival_distributions=arr,
        service_distributions=srv,
        number_of_servers=[_servers(n.get("c", 1)) for n in nodes],
    )
    if any(n.get("cap") not in (None, "inf") for n in nodes):
        kw["queue_capacities"] = [_cap(n.get("cap")) for n in nodes]
    if any_bat:
        kw["batching_distributions"] = bat
    if any_ren:
        kw["reneging_time_distributions"] = ren
    if any_baulk:
        kw["baulking_functions"] = baulk
    if any_route:
        kw["routing"] = rout
    preempts = [n.get("preempt", False) for n in nodes]
    if len(set(prio.values())) > 1 or any(preempts):
        if any(preempts):
            kw["priority_classes"] = (prio, preempts)
        else:
            kw["priority_classes"] = prio
    if any(n.get("class_change") for n in nodes):
        ccm = []
        for n in nodes:
            m = n.get("class_change")
            if m is None:
                m = {a: {b: (1.0 if a == b else 0.0) for b in cnames} for a in cnames}
            ccm.append({a: {b: float(m[a][b]) for b in reversed(cnames)} for a in reversed(cnames)})
        kw["class_change_matrices"] = ccm
    cct = {}
    for cn in rnames:
        row = classes[cn].get("cct")
        if row:
            cct[cn] = {to: Menu("cct", 0, cn + ">" + to, vals) for to, vals in sorted(row.items(), reverse=True)}
    if cct:
        kw["class_change_time_distributions"] = cct
    if any(n.get("ps_threshold") for n in nodes):
        kw["ps_thresholds"] = [n.get("ps_threshold", 1) for n in nodes]
    if any(n.get("server_priority") for n in nodes):
        kw["server_priority_functions"] = [
            _server_priority(n["server_priority"]) if n.get("server_priority") else None for n in nodes]
    if any(n.get("discipline") for n in nodes) or cfg.get("watch_discipline"):
        kw["service_disciplines"] = [_discipline(i + 1, n.get("discipline", "FIFO")) for i, n in enumerate(nodes)]
    if cfg.get("system_capacity") not in (None, "inf"):
        kw["system_capacity"] = cfg["system_capacity"]
    return ciw.create_network(**kw)


def make_tracker(cfg):
    spec = cfg.get("tracker") or "StateTracker"
    if isinstance(spec, str):
        name, args = spec, {}
    else:
        name, args = spec[0], spec[1]
    base = getattr(_trackers, name)
    return _mk_tracker_class(base)(**args)


def make_detector(cfg):
    name = cfg.get("detector") or "NoDetection"
    return _mk_detector_class(getattr(_deadlock, name))()


def make_simulation(cfg, net=None):
    if net is None:
        net = build_network(cfg)
    exact = cfg.get("exact", False)
    kw = dict(tracker=make_tracker(cfg), deadlock_detector=make_detector(cfg))
    if exact:
        kw["exact"] = exact   # ciw then forces ExactNode/ExactArrivalNode; node_class seam unavailable
    else:
        kw["node_class"] = [MonPSNode if n.get("ps") else MonNode for n in cfg["nodes"]]
        kw["arrival_node_class"] = MonArrivalNode
    return ciw.Simulation(net, **kw)


class Result(object):
    __slots__ = ("choices", "arity", "tags", "violations", "status", "exception", "nevents",
                 "truncated", "samples", "events", "flags", "ties", "unowned", "Q", "extra")


def run(cfg, prefix, monitors, ptags=None, strict=False, keep_Q=False, drive=None):
    """One execution of the real engine under the answer sequence `prefix` (answer 0 afterwards)."""
    global HUB
    ctx = env.Ctx(prefix, ptags, strict)
    if cfg.get("forced_uniform") is not None:
        ctx.forced_uniform = cfg["forced_uniform"]
    env.set_ctx(ctx)
    hub = Hub(cfg, ctx, monitors)
    HUB = hub
    res = Result()
    res.exception = None
    res.status = "ok"
    res.extra = None
    Q = None
    try:
        try:
            Q = make_simulation(cfg)
            if drive is not None:
                res.extra = drive(Q, hub)
            else:
                e = hub.entry
                if e[0] == "max_time":
                    Q.simulate_until_max_time(e[1])
                elif e[0] == "max_customers":
                    Q.simulate_until_max_customers(e[1], method=e[2])
                elif e[0] == "deadlock":
                    Q.simulate_until_deadlock()
                else:
                    raise env.HarnessError("unknown entry %r" % (e,))
        except env.BoundReached:
            res.status = "truncated"
        except env.HarnessError:
            raise
        except Exception as exc:
            import traceback
            # an exception raised by the harness's OWN code (seam classes, menus, hub) is never a verdict about ciw
            tb = traceback.extract_tb(exc.__traceback__)
            if tb and os.path.dirname(os.path.abspath(tb[-1].filename)).startswith(os.path.dirname(os.path.abspath(__file__))):
                raise env.HarnessError("harness code raised %s: %s at %s:%d" % (type(exc).__name__, exc, tb[-1].filename, tb[-1].lineno))
            res.status = "exception"
            res.exception = (type(exc).__name__, str(exc), traceback.format_exc(limit=-4))
        hub._call(hub.h_end, Q, res.status, res.exception)
    finally:
        env.set_ctx(None)
        HUB = None
    if strict and len(ctx.choices) != len(prefix):
        raise env.Divergence("replay consumed %d of %d recorded answers" % (len(ctx.choices), len(prefix)))
    res.choices, res.arity, res.tags = ctx.choices, ctx.arity, ctx.tags
    res.violations = hub.violations
    res.nevents = hub.nevents
    res.truncated = hub.truncated
    res.samples = ctx.samples
    res.events = hub.events
    res.flags = hub.flags
    res.ties = ctx.ties
    res.unowned = ctx.unowned
    res.Q = Q if keep_Q else None
    return res
