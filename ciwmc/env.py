"""Owned environment for Ciw: every source of nondeterminism becomes a choice point.

Must be imported (and `install()` called) BEFORE `import ciw`, because ciw.node and
ciw.arrival_node bind `random.random` by name at import time.
"""
import os
import math
import random as _random
import sys

_real_random = _random.random
INF = float("inf")


class HarnessError(BaseException):
    """A problem of the checking machinery (never a property violation). Exit code 2."""


class Divergence(HarnessError):
    """Replaying a recorded prefix met a different choice point."""


class BoundReached(BaseException):
    """Raised from a seam to stop an execution at a structural bound (event count / no pending event)."""


class Ctx(object):
    """Choice context of ONE execution."""

    __slots__ = (
        "prefix", "ptags", "choices", "arity", "tags", "samples", "Q", "strict",
        "unowned", "ties", "forced_uniform",
    )

    def __init__(self, prefix=(), ptags=None, strict=False):
        self.prefix = prefix
        self.ptags = ptags      # optional expected (tag, arity) for replayed positions
        self.choices = []
        self.arity = []
        self.tags = []
        self.samples = []       # (kind, node, cls, t, ind_id, value)
        self.Q = None
        self.strict = strict    # strict: the execution must consume exactly the prefix (replay files)
        self.unowned = False
        self.ties = 0           # picks among >1 simultaneous candidates (tie-break choice points)
        self.forced_uniform = None  # optional explicit float answers for random() end-point family

    def choose(self, n, tag):
        if n <= 1:
            return 0
        i = len(self.choices)
        if i < len(self.prefix):
            c = self.prefix[i]
            if c >= n or c < 0:
                raise Divergence("choice %d: recorded answer %r out of range for arity %d (tag %s)" % (i, c, n, tag))
            if self.ptags is not None and i < len(self.ptags):
                et, en = self.ptags[i]
                if et != tag or en != n:
                    raise Divergence("choice %d: expected (%s,%d) met (%s,%d)" % (i, et, en, tag, n))
        else:
            if self.strict:
                raise Divergence("choice %d (tag %s, arity %d) beyond the recorded sequence" % (i, tag, n))
            c = 0
        self.choices.append(c)
        self.arity.append(n)
        self.tags.append(tag)
        return c

    def deviations(self):
        return sum(1 for c in self.choices if c)


CTX = None  # the current execution's context (set by harness.run)


def set_ctx(ctx):
    global CTX
    CTX = ctx


def _caller_tag(depth=2):
    """Name of the ciw function that asked for the random number (through random_choice if any)."""
    try:
        f = sys._getframe(depth)
        name = f.f_code.co_name
        if name == "random_choice":
            f = f.f_back
            name = f.f_code.co_name
        return name
    except ValueError:
        return "?"


_TIE_TAGS = ("find_next_active_node", "decide_between_simultaneous_individuals")


class LazyUniform(object):
    """Some r in the open interval (lo, hi) of (0,1); branches only when the caller distinguishes values."""

    __slots__ = ("lo", "hi")

    def __init__(self):
        self.lo = 0.0
        self.hi = 1.0

    # -- comparisons ----------------------------------------------------------------------------
    def _cmp_gt(self, p, tag):
        # truth value of r > p
        try:
            p = float(p)
        except Exception:
            raise TypeError("'>' not supported between LazyUniform and %r" % (type(p),))
        if p != p:
            return False
        if p <= self.lo:
            return True
        if p >= self.hi:
            return False
        c = CTX.choose(2, tag)
        if c == 0:
            self.hi = p
            return False
        self.lo = p
        return True

    def __gt__(self, p):
        return self._cmp_gt(p, "gt:" + _caller_tag())

    def __ge__(self, p):
        return self._cmp_gt(p, "ge:" + _caller_tag())

    def __lt__(self, p):
        # r < p  (generic position: r != p)
        try:
            pf = float(p)
        except Exception:
            raise TypeError("'<' not supported between LazyUniform and %r" % (type(p),))
        if pf != pf:
            return False
        if pf <= self.lo:
            return False
        if pf >= self.hi:
            return True
        c = CTX.choose(2, "lt:" + _caller_tag())
        if c == 0:
            self.lo = pf
            return False
        self.hi = pf
        return True

    def __le__(self, p):
        return self.__lt__(p)

    # -- arithmetic -----------------------------------------------------------------------------
    def __mul__(self, n):
        if isinstance(n, int) and not isinstance(n, bool) and n >= 1:
            ctx = CTX
            tag = _caller_tag()
            lo_cell = int(math.floor(self.lo * n))
            hi_cell = int(math.ceil(self.hi * n)) - 1
            cells = hi_cell - lo_cell + 1
            if cells <= 1:
                return lo_cell + 0.5
            if tag == "find_next_active_node":
                Q = ctx.Q
                # dead-choice elimination: nothing can happen any more, the pick is irrelevant
                if Q is not None and all(nd.next_event_date == INF for nd in Q.nodes[:-1]):
                    return lo_cell + 0.5
            if tag in _TIE_TAGS:
                ctx.ties += 1
            k = lo_cell + ctx.choose(cells, "pick:" + tag)
            self.lo = max(self.lo, k / n)
            self.hi = min(self.hi, (k + 1) / n)
            return k + 0.5
        CTX.unowned = True
        return float(self) * n

    __rmul__ = __mul__

    def __float__(self):
        return (self.lo + self.hi) / 2.0

    def __add__(self, x):
        CTX.unowned = True
        return float(self) + x

    __radd__ = __add__

    def __sub__(self, x):
        CTX.unowned = True
        return float(self) - x

    def __rsub__(self, x):
        CTX.unowned = True
        return x - float(self)

    def __truediv__(self, x):
        CTX.unowned = True
        return float(self) / x

    def __repr__(self):
        return "LazyUniform(%r,%r)" % (self.lo, self.hi)


def _owned_random():
    ctx = CTX
    if ctx is None:
        return _real_random()
    if ctx.forced_uniform is not None:
        # explicit end-point answers (C09 end-point family): choose one of the listed floats
        vals = ctx.forced_uniform
        return vals[ctx.choose(len(vals), "r:" + _caller_tag(2))]
    return LazyUniform()


def _owned_choice(seq):
    if CTX is None:
        return _orig["choice"](seq)
    return seq[CTX.choose(len(seq), "choice:" + _caller_tag(2))]


def _owned_randrange(start, stop=None, step=1):
    if CTX is None:
        return _orig["randrange"](start, stop, step)
    r = range(start) if stop is None else range(start, stop, step)
    return r[CTX.choose(len(r), "randrange:" + _caller_tag(2))]


def _owned_randint(a, b):
    if CTX is None:
        return _orig["randint"](a, b)
    return a + CTX.choose(b - a + 1, "randint:" + _caller_tag(2))


def _owned_shuffle(x):
    if CTX is None:
        return _orig["shuffle"](x)
    for i in reversed(range(1, len(x))):
        j = CTX.choose(i + 1, "shuffle:" + _caller_tag(2))
        x[i], x[j] = x[j], x[i]


def _owned_choices(population, weights=None, cum_weights=None, k=1):
    if CTX is None:
        return _orig["choices"](population, weights, cum_weights=cum_weights, k=k)
    if cum_weights is not None:
        weights = [cum_weights[0]] + [cum_weights[i] - cum_weights[i - 1] for i in range(1, len(cum_weights))]
    idx = [i for i in range(len(population)) if weights is None or weights[i] > 0]
    return [population[idx[CTX.choose(len(idx), "choices:" + _caller_tag(2))]] for _ in range(k)]


_orig = {}
_installed = False


def install():
    """Replace the module-level functions of `random` that a discrete choice can go through."""
    global _installed
    if _installed:
        return
    if "ciw" in sys.modules:
        raise HarnessError("ciwmc.env.install() must run before ciw is imported")
    for name, fn in (
        ("random", _owned_random), ("choice", _owned_choice), ("randrange", _owned_randrange),
        ("randint", _owned_randint), ("shuffle", _owned_shuffle), ("choices", _owned_choices),
    ):
        _orig[name] = getattr(_random, name)
        setattr(_random, name, fn)
    _installed = True


def verify_ownership():
    """Identity checks after `import ciw` (proof that the replacement reached every call site)."""
    import ciw
    import ciw.arrival_node
    import ciw.node
    import ciw.auxiliary
    if os.environ.get("CIWMC_REAL_RNG"):
        return True       # C15 works on the real generators (the replacements pass through outside an execution context)
    ok = (
        getattr(ciw.arrival_node, "random", None) is _owned_random
        and getattr(ciw.node, "random", None) is _owned_random
        and getattr(getattr(ciw.auxiliary, "random", None), "random", None) is _owned_random
    )
    if not ok:
        raise HarnessError("random.random replacement did not reach all ciw call sites")
    return True


def rng_state_digest():
    return hash(_random.getstate())
