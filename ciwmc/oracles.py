"""Reference models (plain Python, independent of ciw internals)."""
from fractions import Fraction
from math import isinf

INF = float("inf")


def F(x):
    """exact rational of a float/Decimal/int (dyadic menus are exact in binary)"""
    return Fraction(x)


class Timetable(object):
    """Cyclic server schedule by modular arithmetic (never the generator of ciw.schedules).

    numbers[i] servers are on duty on [offset + k*cycle + ends[i-1], offset + k*cycle + ends[i]),
    ends[-1] = cycle length, ends[-1 of previous] = 0; before `offset` nobody is on duty."""

    def __init__(self, numbers, ends, offset=0.0):
        self.numbers = list(numbers)
        self.ends = [F(e) for e in ends]
        self.offset = F(offset)
        self.cycle = self.ends[-1]

    def phase(self, t):
        return (F(t) - self.offset) % self.cycle

    def is_boundary(self, t):
        t = F(t)
        if t < self.offset:
            return False
        ph = self.phase(t)
        return ph == 0 or ph in self.ends[:-1]

    def servers_at(self, t):
        """servers on duty at t (right-continuous: at a boundary the NEW shift)"""
        t = F(t)
        if t < self.offset:
            return 0
        ph = self.phase(t)
        for i, e in enumerate(self.ends):
            if ph < e:
                return self.numbers[i]
        return self.numbers[0]

    def servers_before(self, t):
        """servers on duty just before t (left limit)"""
        t = F(t)
        if t <= self.offset:
            return 0
        ph = self.phase(t)
        if ph == 0:
            return self.numbers[-1]
        for i, e in enumerate(self.ends):
            if ph <= e:
                return self.numbers[i]
        return self.numbers[0]

    def next_boundary_after(self, t):
        t = F(t)
        if t < self.offset:
            return self.offset
        k = (t - self.offset) // self.cycle
        base = self.offset + k * self.cycle
        for e in self.ends:
            if base + e > t:
                return base + e
        return base + self.cycle + self.ends[0]


class SlotTable(object):
    """Slotted services: slot j of cycle k is at offset + k*cycle + slots[j] with size sizes[j]."""

    def __init__(self, slots, sizes, offset=0.0):
        self.slots = [F(s) for s in slots]
        self.sizes = list(sizes)
        self.offset = F(offset)
        self.cycle = self.slots[-1]

    def slot_size_at(self, t):
        """size of the slot at instant t, or None if t is not a slot instant"""
        t = F(t)
        if t < self.offset:
            return None
        d = t - self.offset
        k = d // self.cycle
        ph = d - k * self.cycle
        for j, s in enumerate(self.slots):
            if ph == s:
                return self.sizes[j]
            if ph == 0 and s == self.cycle and k >= 1:
                return self.sizes[j]
        return None


def node_kind(ncfg):
    """'fixed' (finite int c), 'inf', 'sched', 'slotted', 'ps'"""
    if ncfg.get("ps"):
        return "ps"
    c = ncfg.get("c", 1)
    if c == "inf":
        return "inf"
    if isinstance(c, int):
        return "fixed"
    if "sched" in c:
        return "sched"
    return "slotted"


def capacity(ncfg):
    """servers + queue capacity for fixed-c nodes, INF otherwise/undefined"""
    cap = ncfg.get("cap")
    if cap in (None, "inf") or cap == INF:
        return INF
    if node_kind(ncfg) == "ps" and isinstance(ncfg.get("c"), int):
        return ncfg["c"] + cap          # processor sharing: number_of_servers is the sharing capacity
    if node_kind(ncfg) != "fixed":
        return None   # not a constant: the statement does not define it
    return ncfg["c"] + cap


def timetable_of(ncfg):
    s = ncfg["c"]["sched"]
    return Timetable(s["numbers"], s["ends"], s.get("offset", 0.0))


def slottable_of(ncfg):
    s = ncfg["c"]["slotted"]
    return SlotTable(s["slots"], s["sizes"], s.get("offset", 0.0))
