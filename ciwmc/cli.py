"""./check <ID> [--tier quick|thorough] [--replay FILE]

exit 0: property held on everything explored (KNOWN-FINDING lines allowed)
exit 1: VIOLATION property=<id> replay=<path>
exit 2: harness error (never a verdict about the property)
"""
import os
import sys
import json
import time
import importlib

ROOT = os.path.dirname(os.path.dirname(os.path.abspath(__file__)))


def _reexec_if_needed():
    if os.environ.get("PYTHONHASHSEED") != "0" or os.environ.get("PYTHONDONTWRITEBYTECODE") != "1":
        env = dict(os.environ)
        env["PYTHONHASHSEED"] = "0"
        env["PYTHONDONTWRITEBYTECODE"] = "1"
        os.execve(sys.executable, [sys.executable, "-m", "ciwmc.cli"] + sys.argv[1:], env)


def main(argv=None):
    _reexec_if_needed()
    argv = list(sys.argv[1:] if argv is None else argv)
    if not argv:
        print(__doc__)
        return 2
    pid = argv[0]
    tier = os.environ.get("VERIF_TIER", "quick")
    replay = None
    i = 1
    while i < len(argv):
        if argv[i] == "--tier":
            tier = argv[i + 1]
            i += 2
        elif argv[i] == "--replay":
            replay = argv[i + 1]
            i += 2
        else:
            print("unknown argument", argv[i])
            return 2
    if tier not in ("quick", "thorough"):
        tier = "quick"
    try:
        seed = int(os.environ.get("VERIF_SEED", "0"))
    except ValueError:
        seed = 0
    t0 = time.time()
    try:
        if pid.upper() == "C15":
            os.environ["CIWMC_REAL_RNG"] = "1"
        from . import env
        from . import harness, explore, evidence
        mod = importlib.import_module("ciwmc.props." + pid.lower())
        spec = mod.SPEC
        if hasattr(spec, "custom_main"):
            return spec.custom_main(tier, seed, replay)
        if replay:
            body, res = explore.replay_file(spec, replay)
            hit = [v for v in res.violations]
            if hit:
                for v in hit:
                    print("REPLAY: violation reproduced property=%s clause=%s detail=%s" % (v.prop, v.clause, json.dumps(harness._js(v.detail))))
                return 1
            print("REPLAY: no violation (status %s)" % res.status)
            return 0
        cfgs = spec.families(tier)
        explore.DEFAULT_CAP = 300000 if tier == "quick" else 6000000
        tot = explore.explore(spec, cfgs, seed=seed, account=getattr(spec, "account", True))
        if hasattr(spec, "explicit_families"):
            from . import explicit
            tot["explicit"] = []
            for ecfg in spec.explicit_families(tier):
                ecfg = dict(ecfg, _index=len(cfgs))
                cfgs.append(ecfg)
                r = explicit.search(spec, ecfg, max_states=ecfg.get("max_states", 400000))
                # cross-check: every state the stateless engine reaches on the same configuration (first events, two
                # deviations) must be a state of the explicit search
                cc = dict(ecfg, D=2, max_events=min(8, max(2, r["depth"])), name=ecfg["name"] + " (cross-check)")
                t2 = explore.explore(spec, [cc], seed=0, account=True)
                init = [h for h in t2["states"] if h not in r["canon_seen"]]
                ok = len(init) == 0 and r["complete"]
                if not r["complete"]:
                    ok = None
                elif init:
                    tot["harness_errors"].append("explicit-state search of %s misses %d states reached by the stateless engine" % (ecfg["name"], len(init)))
                tot["harness_errors"].extend(r["harness_errors"])
                tot["viol"].extend(r["viol"])
                for k, v in r["known"].items():
                    kk = tot["known"].setdefault(k, {"n": 0, "what": v["what"]})
                    kk["n"] += v["n"]
                tot["explicit"].append({"config": ecfg["name"], "states": r["states"], "transitions": r["transitions"], "executions": r["executions"],
                                        "depth": r["depth"], "complete": r["complete"], "frontier_per_level": r["levels"][:60],
                                        "cross_check": ok, "wall_s": round(r["wall_s"], 1)})
        return evidence.conclude(spec, cfgs, tot, tier, seed, t0)
    except env.HarnessError as e:
        print("HARNESS-ERROR: %s" % (e,))
        return 2


if __name__ == "__main__":
    sys.exit(main())
