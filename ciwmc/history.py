"""Execution-level history markers used as trigger predicates of known findings (KNOWN_FINDINGS.json).

A marker records that a *specific* already-documented defect scenario has occurred in this execution; monitors
copy the markers into the detail of every violation so that only violations in such executions are downgraded."""
import sys


def _called_from(name, depth=10):
    f = sys._getframe(2)
    for _ in range(depth):
        if f is None:
            return False
        if f.f_code.co_name == name:
            return True
        f = f.f_back
    return False


class History(object):
    def __init__(self):
        self.rerouting_from = None

    def on_init(self, Q):
        self.hub.history = {}

    def _mark(self, k):
        h = getattr(self.hub, "history", None)
        if h is None:
            h = self.hub.history = {}
        h[k] = True
        self.hub.flags.add("history:" + k)

    def on_route(self, kind, ind, node_id, dest, pre):
        if kind == "jockey" and dest.id_number != -1 and dest.number_of_individuals >= dest.node_capacity:
            self._mark("jockeyed_into_full_node")
        if kind == "reroute":
            self.rerouting_from = node_id
            if ind.is_blocked:
                self._mark("rerouted_blocked_customer")
            if dest.id_number == node_id:
                self._mark("reroute_to_same_node")

    def on_accept(self, node, ind):
        # a node accepts a customer while it is itself in the middle of re-routing a pre-empted customer
        # (no test of hub.in_event: in exact mode there is no node_class seam and the flag stays False)
        if self.rerouting_from is not None and node.id_number == self.rerouting_from and _called_from("reroute", 40):
            self._mark("accept_during_own_reroute")

    def on_detach(self, server):
        ind = server.cust
        if not ind:
            return
        if _called_from("preempt"):
            if server.offduty:
                self._mark("priority_preempted_customer_of_offduty_server")
            if ind.is_blocked:
                self._mark("priority_preempted_blocked_customer")

    def on_pre_event(self, node, et):
        # blocked customers at nodes with a pre-emptive 'resume' schedule (candidates of a known finding)
        self.pre_ib = {}
        for nd in self.hub.Q.transitive_nodes:
            if nd.schedule is not None and nd.schedule.preemption == "resume":
                ids = [i.id_number for i in nd.all_individuals if i.is_blocked]
                if ids:
                    self.pre_ib[nd.id_number] = ids

    def on_boundary(self, Q):
        self.rerouting_from = None
        for nid, ids in getattr(self, "pre_ib", {}).items():
            nd = Q.nodes[nid]
            for ind in nd.all_individuals:
                if ind.id_number in ids and not ind.interrupted and not ind.is_blocked and ind.server:
                    self._mark("resume_restart_of_blocked_interrupted_customer")
        self.pre_ib = {}


def markers(hub):
    return dict(getattr(hub, "history", None) or {})
