"""C17 State trackers equal the true configuration; probabilities are time shares."""
from fractions import Fraction
import copy

from ..families import *
from .. import oracles
from ..history import History, markers


def F(x):
    return Fraction(x)


class Monitor(object):
    prop = "C17"

    def __init__(self, cfg):
        self.cfg = cfg
        self.validated = 0
        t = cfg.get("tracker") or "StateTracker"
        self.tname, self.targs = (t, {}) if isinstance(t, str) else (t[0], t[1])
        self.cnames = sorted(cfg["classes"])
        self.blocked_order = []     # (from node, to node, id) in order of blocking, still blocked
        self.timeline = []          # (instant, truth) after every event
        self.lenient = False

    def violate(self, clause, detail):
        detail["tracker"] = self.tname
        detail["history"] = markers(self.hub)
        self.hub.violate("C17", clause, detail)

    # ---- blockage order shadow ------------------------------------------------------------------------
    def on_block(self, node, dest, ind):
        self.blocked_order.append((node.id_number, dest.id_number, ind.id_number))

    def on_release(self, node, dest, ind, blocked):
        # (not conditioned on the `blocked` argument: that is what the engine TELLS the tracker)
        for k, (f, t, i) in enumerate(self.blocked_order):
            if i == ind.id_number and f == node.id_number:
                del self.blocked_order[k]
                break

    # ---- truth -----------------------------------------------------------------------------------------
    def truths(self, Q):
        """set of acceptable states (more than one only where the statement leaves a reading open)"""
        nodes = Q.transitive_nodes
        n = len(nodes)
        pops = [len(nd.all_individuals) for nd in nodes]
        nm = self.tname
        if nm == "StateTracker":
            return [None]
        if nm == "SystemPopulation":
            return [sum(pops)]
        if nm == "NodePopulation":
            return [tuple(pops)]
        if nm == "NodePopulationSubset":
            return [tuple(pops[i] for i in self.targs["observed_nodes"])]
        if nm == "GroupedNodePopulation":
            return [tuple(sum(pops[i] for i in g) for g in self.targs["groups"])]
        if nm == "NaiveBlocking":
            return [tuple((sum(1 for i in nd.all_individuals if not i.is_blocked), sum(1 for i in nd.all_individuals if i.is_blocked)) for nd in nodes)]
        if nm == "MatrixBlocking":
            m = [[[] for _ in range(n)] for _ in range(n)]
            for rank, (f, t, i) in enumerate(self.blocked_order):
                m[f - 1][t - 1].append(rank + 1)
            return [(tuple(tuple(tuple(c) for c in row) for row in m), tuple(pops))]
        if nm == "NodeClassMatrix":
            order = self.targs.get("class_ordering") or self.cnames
            idx = {c: k for k, c in enumerate(order)}
            base = [[0] * len(order) for _ in range(n)]
            open_ = []   # blocked customers whose class was already changed after service: old or new class
            for j, nd in enumerate(nodes):
                for i in nd.all_individuals:
                    if i.is_blocked and i.previous_class != i.customer_class and self.cfg["nodes"][j].get("class_change"):
                        open_.append((j, i.previous_class, i.customer_class))
                    else:
                        base[j][idx[i.customer_class]] += 1
            outs = []
            for mask in range(1 << len(open_)):
                st = [list(r) for r in base]
                for b, (j, old, new) in enumerate(open_):
                    st[j][idx[new if (mask >> b) & 1 else old]] += 1
                outs.append(tuple(tuple(r) for r in st))
            return outs
        raise ValueError(nm)

    def check_state(self, Q):
        tr = Q.statetracker
        got = tr.hash_state()
        ts = self.truths(Q)
        if got not in ts:
            self.violate("state_ne_truth", {"tracked": got, "truth": ts[0], "now": Q.current_time})
        self._neg(got)
        return ts[0] if got not in ts else got

    def _neg(self, st):
        def walk(x):
            if isinstance(x, (tuple, list)):
                return any(walk(y) for y in x)
            return isinstance(x, (int, float)) and x < 0
        if walk(st):
            self.violate("negative_count", {"tracked": st})

    def on_pre_event(self, node, et):
        # the boundary seam IS the tracker's timestamp(): an event that was not followed by it is seen here
        if getattr(self, "_open", None) is not None:
            self.violate("event_without_timestamp", {"event": list(self._open), "next_event_at": self.hub.Q.current_time})
        self._open = (self.hub.Q.current_time, getattr(node, "id_number", 0), et)

    def on_init(self, Q):
        s = self.check_state(Q)
        self.timeline.append((Q.current_time, s))

    def on_boundary(self, Q):
        self._open = None
        s = self.check_state(Q)
        # the instant of the event just executed, read BEFORE the event (the boundary seam is the tracker's own
        # timestamp() call, so the clock at the boundary would follow a misplaced call)
        self.timeline.append((self.hub.events[-1][0], s))

    # ---- history and probabilities ----------------------------------------------------------------------
    def on_end(self, Q, status, exc):
        self.validated = 1
        if status == "ok" and getattr(self, "_open", None) is not None and self.hub.entry[0] in ("max_time", "max_customers"):
            self.violate("event_without_timestamp", {"event": list(self._open), "next_event_at": "end of run"})
        if status != "ok" or Q is None or self.hub.entry[0] not in ("max_time", "max_customers") or self.hub.violations:
            return
        tr = Q.statetracker
        # simulate_until_max_customers stops right after the event that reached the count: windows up to that instant
        T = self.hub.entry[1] if self.hub.entry[0] == "max_time" else (self.timeline[-1][0] if self.timeline else 0.0)
        comp = []
        for t, s in self.timeline:
            if not comp or comp[-1][1] != s:
                comp.append([t, s])
        hist = [list(h) for h in tr.history]
        if hist != comp:
            self.violate("history_ne_compressed_truth", {"tracker_history": hist[:12], "truth": comp[:12]})
            return
        if any(hist[k][0] > hist[k + 1][0] for k in range(len(hist) - 1)):
            self.violate("history_timestamps_decrease", {"tracker_history": hist[:12]})
        if len(comp) < 2:
            return
        self.hub.flags.add("history_with_changes")
        # windows from {0, event instants, midpoints, T}
        pts = sorted(set([F(0), F(T)] + [F(t) for t, _ in comp] + [(F(comp[k][0]) + F(comp[k + 1][0])) / 2 for k in range(len(comp) - 1)]))
        pts = [p for p in pts if p <= F(T)]
        if len(pts) > 9:
            pts = pts[:5] + pts[-4:]
        for ia in range(len(pts)):
            for ib in range(ia + 1, len(pts)):
                a, b = pts[ia], pts[ib]
                exp = {}
                for k, (t, s) in enumerate(comp):
                    t0 = F(t)
                    t1 = F(comp[k + 1][0]) if k + 1 < len(comp) else b
                    lo, hi = max(t0, a), min(t1, b)
                    if hi > lo:
                        exp[s] = exp.get(s, 0) + (hi - lo)
                tot = sum(exp.values())
                exp = {s: v / tot for s, v in exp.items()}
                try:
                    got = tr.state_probabilities(observation_period=(float(a), float(b)))
                except Exception as e:
                    self.violate("state_probabilities_raised", {"window": [float(a), float(b)], "error": repr(e)})
                    return
                self.hub.flags.add("probabilities_checked")
                keys = set(exp) | set(got)
                bad = [k for k in keys if abs(float(got.get(k, 0)) - float(exp.get(k, 0))) > 1e-9]
                if bad or abs(sum(float(v) for v in got.values()) - 1) > 1e-9:
                    self.violate("state_probabilities_ne_time_shares",
                                 {"window": [float(a), float(b)], "got": {str(k): float(v) for k, v in got.items()},
                                  "expected": {str(k): float(v) for k, v in exp.items()},
                                  "window_ends_on_event_instant": any(F(t) == b for t, _ in comp),
                                  "tracker_history": hist[:10]})
                    return
        # default window: no defined end; only sanity
        try:
            got = tr.state_probabilities()
            if abs(sum(float(v) for v in got.values()) - 1) > 1e-9 or not set(got) <= set(s for _, s in comp):
                self.violate("default_window_probabilities_insane", {"got": {str(k): float(v) for k, v in got.items()}})
        except ZeroDivisionError:
            pass


TRACKERS = [
    "SystemPopulation", "NodePopulation", ["NodePopulationSubset", {"observed_nodes": [1, 0]}],
    ["NodePopulationSubset", {"observed_nodes": [1]}], ["GroupedNodePopulation", {"groups": [[0], [1]]}],
    ["GroupedNodePopulation", {"groups": [[1, 0]]}], "NodeClassMatrix", ["NodeClassMatrix", {"class_ordering": ["B", "A"]}],
    "NaiveBlocking", "MatrixBlocking",
]


class Spec(object):
    id = "C17"
    rule = ("every execution = one complete answer sequence of one network x tracker; tracker state compared with the "
            "recomputed truth after every event, history with the compressed truth timeline, state_probabilities with "
            "exact time shares for all windows over {0, event instants, midpoints, T}; non-trivial = the history has at "
            "least two entries and probabilities were compared; distinct = distinct observation digest")
    assumptions = [
        "NodeClassMatrix: a blocked customer that already received its post-service class may be counted under either class",
        "observation windows end at or before the simulated horizon; the default window (0, inf) is only sanity-checked",
    ]

    def monitors(self, cfg):
        return [History(), Monitor(cfg)]

    def nontrivial(self, cfg, res):
        return "probabilities_checked" in res.flags and "history_with_changes" in res.flags

    def families(self, tier):
        return focused(tier)

    def explicit_families(self, tier):
        out = []
        for tr in (["NaiveBlocking"] if tier == "quick" else ["NaiveBlocking", "MatrixBlocking", "NodeClassMatrix", "NodePopulation"]):
            out.append(cfg("E blocking syscap=3 / %s" % tr, "E", [node(c=1), node(c=1, cap=0)],
                           {"A": klass([ARR, None], [[1.0, 0.5], [2.0, 1.0]], route=matrix([[0.0, 1.0], [0.5, 0.0]]))},
                           K=None, T=BIG, system_capacity=3, tracker=tr, features=["explicit", "tracker"]))
        return out


def focused(tier):
    K = 2 if tier == "quick" else 3
    out = []
    fam = "F-track"
    ccm = {"A": {"A": 0.5, "B": 0.5}, "B": {"A": 0.0, "B": 1.0}}
    nets = [
        ("blocking", [node(c=1), node(c=1, cap=0)],
         {"A": klass([ARR, None], [[1.0, 0.5], [2.0, 1.0]], route=matrix([[0.0, 1.0], [0.5, 0.0]])),
          "B": klass([None, {"values": [1.0, 2.0], "budget": 1}], [[1.0, 0.5], [2.0, 1.0]], route=matrix([[0.0, 0.0], [0.5, 0.0]]))}, 8.0),
        ("class change after service + blocking", [node(c=1, class_change=ccm), node(c=1, cap=0)],
         {"A": klass([ARR, None], [[1.0, 0.5], [2.0, 1.0]], route=matrix([[0.0, 1.0], [0.0, 0.0]])),
          "B": klass([{"values": [1.0, 2.0], "budget": 1}, None], [[1.0, 0.5], [2.0, 1.0]], route=matrix([[0.0, 1.0], [0.0, 0.0]]))}, 10.0),
        ("class change while waiting", [node(c=1), node(c=1)],
         {"A": klass([ARR, None], [[2.0, 1.0], [1.0]], route=matrix([[0.0, 1.0], [0.0, 0.0]]), cct={"B": [0.5, 1.5]}),
          "B": klass([{"values": [1.0, 2.0], "budget": 1}, None], [[2.0, 1.0], [1.0]], route=matrix([[0.0, 1.0], [0.0, 0.0]]))}, 10.0),
        ("reneging with jockeying", [node(c=1), node(c=1)],
         {"A": klass([ARR, None], [[2.0, 1.0], [1.0, 0.5]], renege=[PAT, None], route=network(direct(2, jockey_to=2), leave())),
          "B": klass([None, {"values": [1.0, 2.0], "budget": 1}], [[2.0, 1.0], [1.0, 0.5]], renege=[None, None], route=network(leave(), leave()))}, 10.0),
        ("pre-emptive priorities", [node(c=1, preempt="resume"), node(c=1)],
         {"A": klass([ARR, None], [[2.0, 1.0], [1.0]], prio=1, route=matrix([[0.0, 0.5], [0.0, 0.0]])),
          "B": klass([{"values": [1.0, 2.0], "budget": 1}, None], [[0.5, 1.0], [1.0]], prio=0, route=matrix([[0.0, 0.5], [0.0, 0.0]]))}, 10.0),
        ("pre-emptive priorities reroute", [node(c=1, preempt="reroute"), node(c=1)],
         {"A": klass([ARR, None], [[2.0, 1.0], [1.0]], prio=1, route=matrix([[0.0, 0.5], [0.0, 0.0]])),
          "B": klass([{"values": [1.0, 2.0], "budget": 1}, None], [[0.5, 1.0], [1.0]], prio=0, route=matrix([[0.0, 0.5], [0.0, 0.0]]))}, 10.0),
        ("schedule reroute", [node(c={"sched": {"numbers": [1, 0], "ends": [1.5, 2.5], "preempt": "reroute"}}), node(c=1)],
         {"A": klass([ARR, None], [[2.0, 1.0], [1.0]], route=matrix([[0.0, 0.5], [0.0, 0.0]])),
          "B": klass([None, {"values": [1.0, 2.0], "budget": 1}], [[2.0, 1.0], [1.0]], route=matrix([[0.0, 0.0], [0.0, 0.0]]))}, 8.0),
        ("schedule resume + blocking", [node(c={"sched": {"numbers": [1, 0], "ends": [2.0, 3.0], "preempt": "restart"}}), node(c=1, cap=0)],
         {"A": klass([ARR, None], [[1.0, 0.5], [2.0, 1.0]], route=matrix([[0.0, 1.0], [0.0, 0.0]])),
          "B": klass([None, {"values": [1.0, 2.0], "budget": 1}], [[1.0, 0.5], [2.0, 1.0]], route=matrix([[0.0, 0.0], [0.0, 0.0]]))}, 9.0),
        ("two class changes in one visit (timed, then after service)", [node(c=1, class_change={"A": {"A": 1.0, "B": 0.0, "C": 0.0}, "B": {"A": 0.0, "B": 0.0, "C": 1.0}, "C": {"A": 0.0, "B": 0.0, "C": 1.0}}), node(c=1)],
         {"A": klass([{"values": [0.5, 0.25], "budget": 2}, None], [[3.0, 2.0], [1.0]], route=matrix([[0.0, 1.0], [0.0, 0.0]]), cct={"B": [0.5, 1.0]}),
          "B": klass([None, None], [[3.0, 2.0], [1.0]], route=matrix([[0.0, 1.0], [0.0, 0.0]])),
          "C": klass([None, None], [[3.0, 2.0], [1.0]], route=matrix([[0.0, 1.0], [0.0, 0.0]]))}, 12.0),
        ("ageing A>B>C while waiting", [node(c=1), node(c=1)],
         {"A": klass([{"values": [0.5, 0.25], "budget": 3}, None], [[6.0, 2.0], [1.0]], route=matrix([[0.0, 1.0], [0.0, 0.0]]), prio=2, cct={"B": [0.5, 1.0]}),
          "B": klass([None, None], [[6.0, 2.0], [1.0]], route=matrix([[0.0, 1.0], [0.0, 0.0]]), prio=1, cct={"C": [0.5, 1.5]}),
          "C": klass([None, None], [[6.0, 2.0], [1.0]], route=matrix([[0.0, 1.0], [0.0, 0.0]]), prio=0)}, 12.0),
        ("schedule zero shift + class change while waiting", [node(c={"sched": {"numbers": [0, 1], "ends": [2.0, 6.0], "preempt": False}}), node(c=1)],
         {"A": klass([{"values": [0.5, 1.0], "budget": 2}, None], [[0.5, 1.0], [1.0]], route=matrix([[0.0, 1.0], [0.0, 0.0]]), cct={"B": [3.0, 1.0]}),
          "B": klass([None, None], [[0.5, 1.0], [1.0]], route=matrix([[0.0, 1.0], [0.0, 0.0]]))}, 10.0),
        ("batches with rejection", [node(c=1, cap=1), node(c=1)],
         {"A": klass([ARR, None], [[2.0, 1.0], [1.0]], batch=[[2, 1, 0], None], route=matrix([[0.0, 0.5], [0.0, 0.0]])),
          "B": klass([None, {"values": [1.0, 2.0], "budget": 1}], [[2.0, 1.0], [1.0]], batch=[None, None], route=matrix([[0.0, 0.0], [0.0, 0.0]]))}, 10.0),
    ]
    # two destinations that free in either order: the customer blocked LATER can be released first
    three = [node(c=2), node(c=1, cap=0), node(c=1, cap=0)]
    three_cl = {"A": klass([{"values": [0.5, 0.25], "budget": 3}, {"values": [0.25], "budget": 1}, {"values": [0.25], "budget": 1}],
                           [[0.5, 1.0], [4.0, 2.0], [4.0, 3.0]], route=matrix([[0.0, 0.5, 0.5], [0.0, 0.0, 0.0], [0.0, 0.0, 0.0]]))}
    for tr in ("MatrixBlocking", "NaiveBlocking") if tier == "quick" else TRACKERS:
        tn = tr if isinstance(tr, str) else "%s%s" % (tr[0], list(tr[1].values())[0])
        if tn.startswith("NodeClassMatrix["):
            continue          # (a class ordering naming a class this one-class network does not have)
        out.append(cfg("two blocking destinations / %s" % tn, fam, copy.deepcopy(three), copy.deepcopy(three_cl), K=3, T=10.0,
                       D=5 if tier == "quick" else 8, tracker=tr, features=["tracker", "blocking", "two destinations"]))
    # the other entry points stamp the history too
    for method, n in (("Finish", 3), ("Complete", 2), ("Arrive", 4), ("Accept", 3)):
        for tr in ("NodePopulation", "NaiveBlocking") if tier == "quick" else ("SystemPopulation", "NodePopulation", "NaiveBlocking", "MatrixBlocking", "NodeClassMatrix"):
            nm, nodes, classes, T = nets[1]          # no feedback loop: the count is always reached
            out.append(cfg("%s / %s until %d customers (%s)" % (nm, tr, n, method), fam, copy.deepcopy(nodes), copy.deepcopy(classes), K=K + 1,
                           entry=["max_customers", n, method], D=4 if tier == "quick" else 6, tracker=tr, features=["tracker", nm, "max_customers"]))
    for nm, nodes, classes, T in nets:
        for tr in TRACKERS:
            tn = tr if isinstance(tr, str) else "%s%s" % (tr[0], list(tr[1].values())[0])
            if nm in ("two class changes in one visit (timed, then after service)", "ageing A>B>C while waiting",
                      "schedule zero shift + class change while waiting") and not tn.startswith(("NodeClassMatrix", "NodePopulation", "SystemPopulation")):
                continue
            if tn.startswith("NodeClassMatrix[") and len(classes) == 3:
                tr = ["NodeClassMatrix", {"class_ordering": ["C", "A", "B"]}]
            if tier == "quick" and nm in ("pre-emptive priorities reroute", "schedule reroute", "schedule resume + blocking") and tn not in (
                    "SystemPopulation", "NodePopulation", "NaiveBlocking", "NodeClassMatrix", "MatrixBlocking"):
                continue
            if tier == "quick" and nm not in ("blocking", "class change after service + blocking") and tn in (
                    "NodePopulationSubset[1]", "GroupedNodePopulation[[1, 0]]", "NodeClassMatrix['B', 'A']"):
                continue
            out.append(cfg("%s / %s" % (nm, tn), fam, copy.deepcopy(nodes), copy.deepcopy(classes), K=K, T=T, D=4 if tier == "quick" else 6,
                           tracker=tr, features=["tracker", nm]))
    return out


SPEC = Spec()
