"""C13 Reneging and baulking happen exactly when the model says."""
from math import isinf

from ..families import *
from .. import oracles
from ..history import History, markers


class Monitor(object):
    prop = "C13"

    def __init__(self, cfg):
        self.cfg = cfg
        self.validated = 0
        self.kinds = {i + 1: oracles.node_kind(n) for i, n in enumerate(cfg["nodes"])}
        self.patience = {}      # (node, id, arrival instant) -> sample
        self.jockey = {}
        self.baulk_calls = {}   # id -> (n, true population, p, node)
        self.accepted_before = 0
        self.A = 0

    def violate(self, clause, detail):
        detail["history"] = markers(self.hub)
        self.hub.violate("C13", clause, detail)

    def on_sample(self, menu, t, ind, v):
        if menu.kind == "ren" and ind is not None:
            self.patience[(menu.node, ind.id_number, t)] = v

    def on_route(self, kind, ind, node_id, dest, pre):
        if kind == "jockey":
            self.jockey[(ind.id_number, self.hub.Q.current_time)] = dest.id_number

    def on_renege(self, node, dest, ind):
        # no customer in service reneges (moment-of-decision check, server side and customer side)
        if ind.server or (hasattr(node, "servers") and not isinf(node.c) and any(s.cust is ind for s in node.servers)):
            self.violate("customer_in_service_reneged", {"node": node.id_number, "id": ind.id_number,
                                                         "server": getattr(ind.server, "id_number", ind.server)})

    def on_baulk(self, n, Q, ind, node, p):
        true_n = len(node.all_individuals)
        if n != true_n:
            self.violate("baulking_function_given_wrong_population", {"node": node.id_number, "n": n, "true_population": true_n})
        if ind.id_number in self.baulk_calls:
            self.violate("baulking_function_called_twice", {"id": ind.id_number})
        self.baulk_calls[ind.id_number] = (n, true_n, p, node.id_number)

    def on_pre_event(self, node, et):
        if et == "arrival":
            self.accepted_before = node.number_accepted_individuals

    def started_in_visit(self, ind, node_id, arrival, before=None):
        """was a service started (and interrupted in place) during the CURRENT visit?  Only the records after the last
        record that ended a visit count: a customer re-routed away and back within one instant has several visits with the
        same node and arrival date."""
        recs = ind.data_records
        if before is not None:
            recs = recs[:recs.index(before)]
        for r in reversed(recs):
            in_place = r.record_type == "interrupted service" and isinstance(r.destination, float) and r.destination != r.destination
            if not in_place:
                return False          # a service / renege / re-routing record: the visit before it is over
            if r.node == node_id and r.arrival_date == arrival:
                return True
        return False

    def on_boundary(self, Q):
        now = Q.current_time
        # ---- nobody waits longer than its patience ---------------------------------------------------------
        for nd in Q.transitive_nodes:
            nid = nd.id_number
            if self.kinds[nid] not in ("fixed", "sched") or not nd.reneging:
                continue
            held = set(id(s.cust) for s in nd.servers if s.cust)
            for ind in nd.all_individuals:
                if id(ind) in held or ind.interrupted:
                    continue
                pat = self.patience.get((nid, ind.id_number, ind.arrival_date))
                if pat is None or self.started_in_visit(ind, nid, ind.arrival_date):
                    continue
                self.hub.flags.add("waiting_with_patience")
                if ind.arrival_date + pat < now:
                    self.violate("waited_longer_than_patience", {"node": nid, "id": ind.id_number, "arrival": ind.arrival_date,
                                                                 "patience": pat, "now": now})
        # ---- records ---------------------------------------------------------------------------------------
        exit_ids = None
        for ind, r in self.hub.new_records():
            if r.record_type == "renege":
                self.hub.flags.add("reneged_record")
                pat = self.patience.get((r.node, r.id_number, r.arrival_date))
                if pat is None:
                    self.violate("renege_without_patience_sample", {"id": r.id_number, "node": r.node})
                elif r.exit_date != r.arrival_date + pat:
                    self.violate("renege_not_at_arrival_plus_patience", {"id": r.id_number, "node": r.node, "arrival": r.arrival_date,
                                                                         "patience": pat, "reneged_at": r.exit_date})
                if self.started_in_visit(ind, r.node, r.arrival_date, before=r):
                    self.violate("reneged_after_service_started", {"id": r.id_number, "node": r.node})
                tgt = self.jockey.get((r.id_number, r.exit_date), -1)
                loc = [h.id_number for h, i in self.hub.all_customers() if i is ind]
                # the customer may already have been moved on by the cascade only if the target is a service node that
                # released it in the same event - impossible without an intermediate event: it must be at the target
                if loc != [tgt]:
                    self.violate("reneger_not_at_jockeying_target", {"id": r.id_number, "target": tgt, "at": loc})
            elif r.record_type == "service" and self.kinds.get(r.node) in ("fixed", "sched"):
                pat = self.patience.get((r.node, r.id_number, r.arrival_date))
                if pat is not None:
                    first_start = min([x.service_start_date for x in ind.data_records
                                       if x.node == r.node and x.arrival_date == r.arrival_date and x.record_type in ("service", "interrupted service")
                                       and x.service_start_date is not False])
                    if first_start > r.arrival_date + pat:
                        self.violate("service_started_after_patience_expired", {"id": r.id_number, "node": r.node, "arrival": r.arrival_date,
                                                                                "patience": pat, "service_start": first_start})
        # ---- baulking ---------------------------------------------------------------------------------------
        A = Q.nodes[0].number_of_individuals
        if self.baulk_calls or A > self.A:
            exit_inds = {i.id_number: i for i in Q.nodes[-1].all_individuals}
            n_accept = 0
            for cid in range(self.A + 1, A + 1):
                ind = exit_inds.get(cid)
                rec = ind.data_records[0] if ind is not None and ind.data_records else None
                baulked = rec is not None and rec.record_type == "baulk"
                rejected = rec is not None and rec.record_type == "rejection"
                call = self.baulk_calls.pop(cid, None)
                if baulked:
                    self.hub.flags.add("baulked")
                    if call is None:
                        self.violate("baulked_without_baulking_function_call", {"id": cid})
                    else:
                        if not call[2] > 0:
                            self.violate("baulked_with_probability_zero", {"id": cid, "p": call[2], "n": call[0]})
                        if rec.arrival_date != now or rec.exit_date != now or rec.node != call[3] or len(ind.data_records) != 1:
                            self.violate("baulk_record_wrong", {"id": cid, "record": [str(x) for x in rec], "now": now})
                elif not rejected:
                    n_accept += 1
                    if call is not None:
                        self.hub.flags.add("baulk_considered")
                        if not call[2] < 1:
                            self.violate("joined_with_baulking_probability_one", {"id": cid, "p": call[2], "n": call[0]})
            if A > self.A:
                got = Q.nodes[0].number_accepted_individuals - self.accepted_before
                if got != n_accept:
                    self.violate("accepted_counter_counts_baulkers_or_rejections", {"counted": got, "joined": n_accept})
        self.A = A

    def on_end(self, Q, status, exc):
        self.validated = 1


class Spec(object):
    id = "C13"
    rule = ("every execution = one complete answer sequence of one reneging/baulking configuration (patience, service, "
            "baulking decisions, tie-breaks all enumerated); non-trivial = a renege record was written or a baulking "
            "decision was taken; distinct = distinct observation digest")
    assumptions = [
        "a customer whose service has started once in the visit (then pre-empted) is no longer subject to its patience",
        "the jockeying target is taken from the router seam (default: the exit)",
        "baulking: p=0 never, p=1 always, 0<p<1 both outcomes are explored",
    ]

    def monitors(self, cfg):
        return [History(), Monitor(cfg)]

    def nontrivial(self, cfg, res):
        return "reneged_record" in res.flags or "baulk_considered" in res.flags or "baulked" in res.flags

    def explicit_families(self, tier):
        # complete state-space closure of the shared small networks (the monitor judges every transition of the graph)
        return [explicit_small("renege")] + (explicit_basic(tier) if tier != "quick" else [])

    def families(self, tier):
        from .. import universal
        return focused(tier) + universal.subset(tier, ["renege", "baulk", "jockey"])


def focused(tier):
    K = 3 if tier == "quick" else 4
    out = []
    fam = "F-renege"
    for c in (1, 2):
        out.append(single("renege c=%d" % c, fam, c=c, K=K + (c - 1), srv=[2.0, 1.0], classkw={"renege": [PAT]}, features=["reneging"]))
    out.append(cfg("renege 2 classes one without", fam, [node(c=1)],
                   {"A": klass([ARR], [[2.0, 1.0]], renege=[PAT]), "B": klass([[1.0, 2.0]], [[2.0, 1.0]], renege=[None])}, K=2, features=["reneging"]))
    out.append(two_class_single("renege priorities", fam, c=1, K=2, prios=(1, 0), srvA=[2.0, 1.0], srvB=[2.0, 1.0],
                                ckwA={"renege": [[1.0, 2.5]]}, ckwB={"renege": [[0.5, 1.5]]}, features=["reneging", "priorities"]))
    for opt in ("resume", "restart"):
        out.append(two_class_single("renege preempt %s" % opt, fam, c=1, K=2, prios=(1, 0), preempt=opt, arrA=[0.5], srvA=[4.0, 1.0], arrB=[1.5, 3.0],
                                    srvB=[0.5, 2.0], ckwA={"renege": [[1.5, 3.0]]}, ckwB={"renege": [None]}, T=14.0, features=["reneging", "preempt_prio"]))
    out.append(single("renege sched zero shift", fam, K=K, T=10.0, c={"sched": {"numbers": [1, 0], "ends": [2.0, 3.0], "preempt": False}},
                      srv=[2.0, 1.0], classkw={"renege": [[1.0, 2.5]]}, features=["reneging", "schedule"]))
    out.append(single("renege cap=1", fam, c=1, K=K, srv=[2.0, 1.0], nodekw={"cap": 1}, classkw={"renege": [PAT]}, features=["reneging", "capacity"]))
    out.append(cfg("renege jockey to node 2", fam, [node(c=1), node(c=1)],
                   {"A": klass([ARR, None], [[2.0, 1.0], [1.0, 0.5]], renege=[PAT, None], route=network(direct(2, jockey_to=2), leave()))},
                   K=K, features=["reneging", "jockey"]))
    out.append(cfg("renege jockey to node 2 (both renege)", fam, [node(c=1), node(c=1)],
                   {"A": klass([ARR, None], [[2.0, 1.0], [2.0, 0.5]], renege=[PAT, [0.5]], route=network(leave(jockey_to=2), leave()))},
                   K=K, features=["reneging", "jockey"]))
    # renege instant tied with an end of service and with an arrival
    out.append(single("renege ties", fam, c=1, K=K, arr=[1.0], srv=[2.0, 1.0], classkw={"renege": [[1.0, 2.0]]}, features=["reneging", "ties"]))
    out.append(cfg("renege blocked-at-destination frees", fam, [node(c=1), node(c=1, cap=1)],
                   {"A": klass([ARR, None], [[1.0, 0.5], [4.0, 2.0]], route=matrix([[0.0, 1.0], [0.0, 0.0]]), renege=[None, [1.0, 2.5]])},
                   K=K, T=16.0, features=["blocking", "reneging"]))
    # patience per class AND per node: A is patient at node 1 only, B at node 2 only (node 2 is a reneging node for B)
    out.append(cfg("renege per class per node", fam, [node(c=1), node(c=1)],
                   {"A": klass([ARR, None], [[1.0, 0.5], [3.0, 1.0]], renege=[[1.0, 2.5], None], route=matrix([[0.0, 1.0], [0.0, 0.0]])),
                    "B": klass([None, {"values": [1.0, 2.0], "budget": 2}], [[1.0], [3.0, 1.0]], renege=[None, PAT], route=matrix([[0.0, 0.0], [0.0, 0.0]]))},
                   K=K, T=14.0, D=5 if tier == "quick" else 8, features=["reneging", "classes"]))
    fam = "F-baulk"
    out.append(single("baulk by n", fam, c=1, K=K + 1, srv=[2.0, 1.0], classkw={"baulk": [{"by_n": [0.0, 0.5, 1.0]}]}, features=["baulking"]))
    out.append(single("baulk menu", fam, c=1, K=K, srv=[2.0, 1.0], classkw={"baulk": [{"menu": [0.5, 0.0, 1.0]}]}, features=["baulking"]))
    out.append(single("baulk batches", fam, c=1, K=K - 1, srv=[2.0, 1.0], classkw={"baulk": [{"by_n": [0.0, 0.5, 1.0]}], "batch": [[2, 1]]}, features=["baulking", "batching"]))
    out.append(cfg("baulk two nodes two classes", fam, [node(c=1), node(c=1)],
                   {"A": klass([ARR, None], [[2.0, 1.0], [1.0]], baulk=[{"by_n": [0.0, 1.0]}, None], route=matrix([[0.0, 1.0], [0.0, 0.0]])),
                    "B": klass([None, [1.0, 2.0]], [[2.0, 1.0], [1.0, 2.0]], baulk=[None, {"by_n": [0.5, 0.5, 1.0]}], route=matrix([[0.0, 0.0], [0.0, 0.0]]))},
                   K=2, features=["baulking"]))
    out.append(single("baulk + renege", fam, c=1, K=K, srv=[2.0, 1.0], classkw={"baulk": [{"by_n": [0.0, 0.5, 1.0]}], "renege": [PAT]}, features=["baulking", "reneging"]))
    return out


SPEC = Spec()
