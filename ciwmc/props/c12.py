"""C12 Server schedules and slotted services follow the declared cyclic timetable."""
from ..families import *
from .. import oracles
from ..history import History, markers, _called_from


class Monitor(object):
    prop = "C12"

    def __init__(self, cfg):
        self.cfg = cfg
        self.validated = 0
        self.kinds = {i + 1: oracles.node_kind(n) for i, n in enumerate(cfg["nodes"])}
        self.tt = {}
        self.st = {}
        self.opt = {}
        self.capacitated = {}
        for i, nc in enumerate(cfg["nodes"]):
            k = self.kinds[i + 1]
            if k == "sched":
                self.tt[i + 1] = oracles.timetable_of(nc)
                self.opt[i + 1] = nc["c"]["sched"].get("preempt", False)
            elif k == "slotted":
                self.st[i + 1] = oracles.slottable_of(nc)
                self.opt[i + 1] = nc["c"]["slotted"].get("preempt", False)
                self.capacitated[i + 1] = nc["c"]["slotted"].get("capacitated", False)
        self.prio_preempt = any(n.get("preempt") for n in cfg["nodes"])
        self.pre = None
        self.in_service_before = {}
        self.samples = {}

    def violate(self, clause, detail):
        detail["history"] = markers(self.hub)
        self.hub.violate("C12", clause, detail)

    def on_sample(self, menu, t, ind, v):
        if menu.kind == "srv" and ind is not None:
            self.samples.setdefault((menu.node, ind.id_number), []).append((t, v))

    # ---- schedules ------------------------------------------------------------------------------------
    def on_pre_event(self, node, et):
        self.pre = None
        nid = getattr(node, "id_number", 0)
        if et == "shift_change" and nid in self.tt:
            self.pre = ("shift", nid, [s.cust.id_number for s in node.servers if s.cust],
                        [i.id_number for i in node.interrupted_individuals])
            self.hub.flags.add("shift_change")
        elif et == "slotted_service" and nid in self.st:
            self.pre = ("slot", nid, [i.id_number for i in node.all_individuals if i.server and i.service_start_date is not False],
                        [i.id_number for i in node.interrupted_individuals],
                        [i.id_number for i in node.all_individuals if not i.server])
            self.hub.flags.add("slot")

    def on_attach(self, node, server, ind):
        nid = node.id_number
        if nid not in self.tt:
            return
        now = self.hub.Q.current_time
        tt = self.tt[nid]
        self.hub.flags.add("start_at_sched_node")
        if server.offduty:
            self.violate("service_started_on_off_duty_server", {"node": nid, "server": server.id_number, "id": ind.id_number, "now": now})
        if tt.servers_before(now) == 0 and tt.servers_at(now) == 0:
            self.violate("service_started_while_zero_servers_scheduled", {"node": nid, "id": ind.id_number, "now": now})
        if self.opt[nid] and not _called_from("preempt"):
            # (a priority pre-emption at an arrival is not a "fresh customer served when servers return")
            inter = list(node.interrupted_individuals)
            if inter:
                best = min((i.priority_class, i.arrival_date) for i in inter)
                if ind not in inter:
                    self.violate("fresh_customer_before_interrupted", {"node": nid, "started": ind.id_number,
                                                                       "interrupted": [i.id_number for i in inter], "now": now})
                elif (ind.priority_class, ind.arrival_date) != best:
                    self.violate("interrupted_restart_order", {"node": nid, "started": [ind.id_number, ind.priority_class, ind.arrival_date],
                                                               "interrupted": [[i.id_number, i.priority_class, i.arrival_date] for i in inter]})

    def on_boundary(self, Q):
        now = Q.current_time
        for nid, tt in self.tt.items():
            nd = Q.nodes[nid]
            onduty = sum(1 for s in nd.servers if not s.offduty)
            if not (tt.is_boundary(now) and nd.next_shift_change == now):
                exp = tt.servers_at(now)
                if onduty != exp:
                    self.violate("servers_on_duty_ne_timetable", {"node": nid, "now": now, "on_duty": onduty, "timetable": exp})
                if nd.next_shift_change != tt.next_boundary_after(now):
                    self.violate("next_shift_change_ne_timetable", {"node": nid, "now": now, "next": nd.next_shift_change,
                                                                    "timetable": float(tt.next_boundary_after(now))})
        new = self.hub.new_records()
        if self.pre is not None and self.pre[0] == "shift":
            _, nid, in_service, _ = self.pre
            nd = Q.nodes[nid]
            if self.opt[nid]:
                got = set(r.id_number for ind, r in new if r.record_type == "interrupted service" and r.node == nid and r.exit_date == now)
                missing = [i for i in in_service if i not in got]
                if missing:
                    self.violate("in_service_at_shift_end_not_interrupted", {"node": nid, "now": now, "in_service": in_service, "interrupted": sorted(got)})
                if in_service:
                    self.hub.flags.add("interrupted_at_shift_end")
            else:
                # non-pre-emptive: everybody keeps its server
                held = {s.cust.id_number: s for s in nd.servers if s.cust}
                for i in in_service:
                    if i not in held:
                        self.violate("overtime_service_cut", {"node": nid, "now": now, "id": i})
                if in_service:
                    self.hub.flags.add("overtime")
        for ind, r in new:
            if r.node in self.tt and not self.opt[r.node] and not self.prio_preempt:
                if r.record_type == "interrupted service":
                    self.violate("interruption_at_non_preemptive_schedule", {"node": r.node, "id": r.id_number})
                elif r.record_type == "service":
                    smp = [v for (t, v) in self.samples.get((r.node, r.id_number), []) if t == r.service_start_date]
                    if len(smp) != 1 or r.service_time != smp[0]:
                        self.violate("overtime_duration_ne_sample", {"node": r.node, "id": r.id_number, "service_time": r.service_time, "samples": smp})
            if r.node in self.st and r.record_type in ("service", "interrupted service"):
                if r.service_start_date is False or self.st[r.node].slot_size_at(r.service_start_date) is None:
                    self.violate("service_start_not_at_slot_instant", {"node": r.node, "id": r.id_number, "start": r.service_start_date})
        # ---- slots --------------------------------------------------------------------------------------
        if self.pre is not None and self.pre[0] == "slot":
            _, nid, before, inter_before, waiting_before = self.pre
            nd = Q.nodes[nid]
            size = self.st[nid].slot_size_at(now)
            if size is None:
                self.violate("slot_event_not_at_slot_instant", {"node": nid, "now": now})
            else:
                started = [i.id_number for i in nd.all_individuals if i.server and i.service_start_date == now]
                # (at slotted nodes an interrupted customer keeps server=True; in service <=> it has a start date)
                after = [i.id_number for i in nd.all_individuals if i.server and i.service_start_date is not False]
                if len(started) > size:
                    self.violate("more_starts_than_slot_size", {"node": nid, "now": now, "size": size, "started": started})
                if self.capacitated[nid]:
                    still = [i for i in before if i in after and i not in started]
                    if self.opt[nid]:
                        if len(after) > size:
                            self.violate("capacitated_slot_over_capacity", {"node": nid, "now": now, "size": size, "in_service": after})
                    elif len(started) > max(0, size - len(before)):
                        self.violate("capacitated_slot_over_capacity", {"node": nid, "now": now, "size": size, "in_service_before": before, "started": started})
                else:
                    expect = min(size, len(waiting_before) + len(inter_before))
                    if len(started) != expect:
                        self.violate("slot_starts_ne_min_size_waiting", {"node": nid, "now": now, "size": size, "waiting": waiting_before, "started": started})
                n_from_inter = len([i for i in started if i in inter_before])
                if n_from_inter != min(len(started), len(inter_before)):
                    self.violate("slot_fresh_customer_before_interrupted", {"node": nid, "now": now, "started": started, "interrupted_before": inter_before})
                if started:
                    self.hub.flags.add("slot_started")
        for nid in self.st:
            nd = Q.nodes[nid]
            for i in nd.all_individuals:
                if i.server and i.service_start_date is not False and self.st[nid].slot_size_at(i.service_start_date) is None:
                    self.violate("service_start_not_at_slot_instant", {"node": nid, "id": i.id_number, "start": i.service_start_date})
        self.pre = None

    def on_end(self, Q, status, exc):
        self.validated = 1


class Spec(object):
    id = "C12"
    rule = ("every execution = one complete answer sequence of one schedule / slot-table configuration over 2.5 cycles; "
            "non-trivial = a shift change with customers in service, or a slot that started services; distinct = "
            "distinct observation digest")
    assumptions = [
        "timetable and slot table recomputed by modular arithmetic in exact rationals, never with ciw's generator",
        "roster compared except at an instant where this node's shift change is still pending",
        "capacitated slots without pre-emption: new starts <= max(0, size - in service before) (the docs' reading); with "
        "pre-emption: in service after the slot <= size",
    ]

    def monitors(self, cfg):
        return [History(), Monitor(cfg)]

    def nontrivial(self, cfg, res):
        return "interrupted_at_shift_end" in res.flags or "overtime" in res.flags or "slot_started" in res.flags

    def explicit_families(self, tier):
        # complete state-space closure of the shared small networks (the monitor judges every transition of the graph)
        return [explicit_small("sched"), explicit_small("sched-resume")] + (explicit_basic(tier) if tier != "quick" else [])

    def families(self, tier):
        from .. import universal
        return focused(tier) + universal.subset(tier, ["sched", "slotted"])


def focused(tier):
    K = 3 if tier == "quick" else 4
    out = []
    fam = "F-sched"
    for nums, ends in (([1, 0], [2.0, 3.0]), ([2, 0, 1], [1.5, 2.5, 4.0]), ([1, 2], [2.0, 3.0]), ([0, 1], [1.0, 2.5])):
        T = 2.5 * ends[-1] + 1.0
        for off in (0.0, 0.5):
            for opt in (False, "resume", "restart", "resample", "reroute"):
                if off == 0.5 and opt in ("restart", "reroute") and tier == "quick":
                    continue
                out.append(single("sched %s off=%s %s" % (nums, off, opt), fam, K=K, T=T, arr=[0.5, 1.0] if nums != [0, 1] else [0.0, 1.0],
                                  srv=[2.0, 0.5], c={"sched": {"numbers": nums, "ends": ends, "preempt": opt, "offset": off}},
                                  features=["schedule"] + (["preempt_sched"] if opt else [])))
    for opt in ("resume", "restart"):
        out.append(two_class_single("sched [2,0,1] %s 2 priorities" % opt, fam, K=2, T=11.0, prios=(1, 0), srvA=[3.0, 1.0], srvB=[2.0, 0.5],
                                    c={"sched": {"numbers": [2, 0, 1], "ends": [1.5, 2.5, 4.0], "preempt": opt}}, features=["schedule", "preempt_sched", "priorities"]))
    # pre-emptive schedule upstream of a full node (blocked customers interrupted, released while off duty)
    for opt in ("resume", "restart", "resample"):
        for nums, ends in (([1, 0], [2.0, 3.0]), ([1, 0, 1], [2.0, 5.0, 6.0])):
            out.append(tandem("sched %s %s + block" % (opt, nums), fam, c=({"sched": {"numbers": nums, "ends": ends, "preempt": opt}}, 1),
                              caps=(None, 0), K=K, T=12.0, features=["schedule", "blocking", "preempt_sched"]))
    fam = "F-slotted"
    for opt in ("resume", "restart", "resample"):
        out.append(single("slotted [3, 2, 1] cap=True %s" % opt, fam, K=K, T=9.0, arr=[0.0, 0.5], srv=[4.0, 8.0, 0.5],
                          c={"slotted": {"slots": [1.0, 2.0, 3.0], "sizes": [3, 2, 1], "capacitated": True, "preempt": opt}}, features=["slotted"]))
    for slots, sizes in (([1.0, 1.5, 3.0], [1, 2, 1]), ([1.0, 1.5, 3.0], [2, 0, 1])):
        for off in (0.0, 0.5):
            for cap, opt in ((False, False), (True, False), (True, "resume"), (True, "restart"), (True, "resample")):
                if off == 0.5 and opt in ("restart", "resample") and tier == "quick":
                    continue
                out.append(single("slotted %s off=%s cap=%s %s" % (sizes, off, cap, opt), fam, K=K, T=8.5, arr=[0.5, 0.0], srv=[2.0, 0.5, 4.0],
                                  c={"slotted": {"slots": slots, "sizes": sizes, "capacitated": cap, "preempt": opt, "offset": off}},
                                  features=["slotted"]))
    out += noserver_upstream_block(tier, ps=False, preempt=False, only=["slotted"])   # pre-emptive slots + blocking: outside the quantifier
    return out


SPEC = Spec()
