"""C05 Work conservation."""
from ..families import *
from .. import oracles
from ..history import History, markers
from .c04 import finite_nodes


class Monitor(object):
    prop = "C05"

    def __init__(self, cfg):
        self.cfg = cfg
        self.validated = 0
        self.arrived_idle = {}   # cust id -> True if a rostered server was idle when it arrived (checked on its record)

    def violate(self, clause, detail):
        detail["history"] = markers(self.hub)
        self.hub.violate("C05", clause, detail)

    def on_init(self, Q):
        self.check(Q)

    def on_boundary(self, Q):
        self.check(Q)

    def check(self, Q):
        for nd, nc in finite_nodes(Q, self.cfg):
            held = set(s.cust.id_number for s in nd.servers if s.cust)
            unserved = [ind.id_number for ind in nd.all_individuals if ind.id_number not in held]
            if unserved:
                self.hub.flags.add("waiting_seen")
                # occupied = holding a customer that is present at this node (a server still 'busy' with a customer
                # that has left serves nobody)
                here = set(id(i) for i in nd.all_individuals)
                idle = [s.id_number for s in nd.servers if not (s.cust and id(s.cust) in here)]
                if idle:
                    self.violate("server_idle_while_customer_waits",
                                 {"node": nd.id_number, "now": Q.current_time, "idle_servers": idle, "unserved": unserved,
                                  "interrupted": [i.id_number for i in nd.interrupted_individuals]})
        for ind, r in self.hub.new_records():
            if r.record_type == "service" and r.waiting_time == 0:
                self.hub.flags.add("zero_wait")

    def on_end(self, Q, status, exc):
        self.validated = 1


class Spec(object):
    id = "C05"
    rule = ("every execution = one complete answer sequence of one configuration; non-trivial = some customer was seen "
            "waiting (present and not held by a server) at an event boundary; distinct = distinct observation digest")
    assumptions = [
        "waiting/in-service read from the server side; slotted, PS and infinite-server nodes are outside the statement",
        "built-in disciplines only (FIFO/LIFO/SIRO)",
    ]

    def monitors(self, cfg):
        return [History(), Monitor(cfg)]

    def nontrivial(self, cfg, res):
        return "waiting_seen" in res.flags

    def families(self, tier):
        from .. import universal
        return focused(tier) + universal.family(tier)

    def explicit_families(self, tier):
        return explicit_basic(tier)


def focused(tier):
    K = 3 if tier == "quick" else 4
    out = []
    fam = "F-workcons"
    for disc in ("FIFO", "LIFO", "SIRO"):
        out.append(single("c=2 %s" % disc, fam, c=2, K=K, nodekw={"discipline": disc}, features=[disc]))
        out.append(two_class_single("prio %s" % disc, fam, c=1, K=2, prios=(1, 0), nodekw={"discipline": disc}, features=["priorities", disc]))
        out.append(two_class_single("prio-preempt resume %s" % disc, fam, c=1, K=2, prios=(1, 0), preempt="resume",
                                    nodekw={"discipline": disc}, features=["preempt_prio", disc]))
    for opt in (False, "resume", "restart", "resample"):
        out.append(single("sched %s" % opt, fam, K=K, T=10.0,
                          c={"sched": {"numbers": [1, 0, 2], "ends": [1.5, 2.5, 4.0], "preempt": opt}}, features=["schedule"]))
        out.append(two_class_single("sched %s prio" % opt, fam, K=2, T=10.0, prios=(1, 0),
                                    c={"sched": {"numbers": [1, 0, 2], "ends": [1.5, 2.5, 4.0], "preempt": opt}}, features=["schedule", "priorities"]))
    for nums, ends in (([1, 1], [2.0, 4.0]), ([2, 1], [1.5, 4.0])):
        out.append(single("sched %s + server priority function" % nums, fam, K=K, T=10.0, srv=[3.0, 1.0],
                          c={"sched": {"numbers": nums, "ends": ends, "preempt": False}}, nodekw={"server_priority": "last"}, features=["schedule", "srvprio"]))
    out.append(two_class_single("renege ties, waiting listed before in-service", fam, c=1, K=2, prios=(1, 0), arrA=[1.0], arrB=[3.0, 2.0], srvA=[6.0], srvB=[1.0],
                                ckwA={"renege": [[5.0]]}, ckwB={"renege": [[3.0, 4.0]]}, T=14.0, features=["reneging", "priorities", "ties"]))
    out.append(single("renege c=1", fam, c=1, K=K, classkw={"renege": [[1.0, 2.5]]}, features=["reneging"]))
    out.append(single("renege c=2", fam, c=2, K=K, srv=[4.0, 1.0], classkw={"renege": [[1.0, 2.5]]}, features=["reneging"]))
    out.append(cfg("cct prio", fam, [node(c=1)],
                   {"A": klass([ARR], [SRV2], prio=1, cct={"B": [0.5, 1.5]}), "B": klass([[1.0, 2.0]], [SRV2], prio=0)},
                   K=2, features=["cct"]))
    out.append(tandem("block upstream c=2", fam, c=(2, 1), caps=(None, 0), K=K, features=["blocking"]))
    out.append(tandem("block downstream c=2", fam, c=(1, 2), caps=(None, 1), K=K, features=["blocking"]))
    out += mixed_tandem(tier)
    return out


SPEC = Spec()
