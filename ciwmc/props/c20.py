"""C20 Exact arithmetic mode computes event dates as exact decimal sums."""
from decimal import Decimal
from fractions import Fraction

from ..families import *
from .. import harness, env
from ..canon import norm_record


def Fs(x):
    """exact rational of the DECIMAL READING of a sample (0.1 means 1/10)"""
    return Fraction(str(x))


class Monitor(object):
    prop = "C20"

    def __init__(self, cfg):
        self.cfg = cfg
        self.validated = 0
        self.arr = {}       # (node, class) -> [samples]
        self.srv = {}       # (node, id) -> [(t, sample)]
        self.ren = {}
        self.first_arrival = {}   # id -> (node, class, instant) from the first acceptance
        self.order = {}     # (node, class) -> [ids in order of creation]

    def violate(self, clause, detail):
        self.hub.violate("C20", clause, detail)

    def on_sample(self, menu, t, ind, v):
        if menu.kind == "arr":
            self.arr.setdefault((menu.node, menu.cls), []).append(v)
        elif menu.kind == "srv" and ind is not None:
            self.srv.setdefault((menu.node, ind.id_number), []).append((t, v))
        elif menu.kind == "ren" and ind is not None:
            self.ren[(menu.node, ind.id_number, Fraction(t))] = v

    def on_accept(self, node, ind):
        if ind.id_number not in self.first_arrival and not ind.data_records:
            self.first_arrival[ind.id_number] = (node.id_number, ind.customer_class, ind.arrival_date)
            self.order.setdefault((node.id_number, ind.customer_class), []).append(ind.id_number)

    def coincidence(self, Q):
        """two pending events with the same date (also within one node, where ciw resolves them by a fixed order)"""
        dates = []
        an = Q.nodes[0]
        for row in an.event_dates_dict.values():
            dates += [d for d in row.values()]
        for nd in Q.transitive_nodes:
            if hasattr(nd, "servers") and nd.c != float("inf"):
                dates += [s.next_end_service_date for s in nd.servers]
                held = set(id(s.cust) for s in nd.servers if s.cust)
                if nd.reneging:
                    dates += [i.reneging_date for i in nd.all_individuals if id(i) not in held]
            if nd.schedule is not None:
                dates.append(nd.next_shift_change if nd.schedule.schedule_type == "schedule" else nd.schedule.next_slot_date)
        # decimal reading of every date: a float shift boundary 0.3 and a Decimal('0.3') event do coincide mathematically
        fin = [Fs(d) for d in dates if d not in (float("inf"), False) and d == d]
        return len(fin) != len(set(fin))

    def on_init(self, Q):
        if self.coincidence(Q):          # e.g. the first arrival and the first slot / shift change
            self.hub.flags.add("coincident_events")

    def on_boundary(self, Q):
        if self.coincidence(Q):
            self.hub.flags.add("coincident_events")
        for ind, r in self.hub.new_records():
            for name in ("arrival_date", "waiting_time", "service_start_date", "service_time", "service_end_date", "time_blocked", "exit_date"):
                v = getattr(r, name)
                if isinstance(v, float) and v != v:
                    continue
                if not isinstance(v, Decimal):
                    self.violate("record_field_not_decimal", {"field": name, "value": repr(v), "record_type": r.record_type, "id": r.id_number})
                    return
            self.hub.flags.add("decimal_record")
            continued = any(x.record_type == "interrupted service" and x.node == r.node and x.arrival_date == r.arrival_date for x in ind.data_records)
            if r.record_type == "service" and not continued:      # (a resumed service does not last its sample; C11's business)
                smp = [v for (t, v) in self.srv.get((r.node, r.id_number), []) if Fraction(t) == Fraction(r.service_start_date)]
                if len(smp) == 1 and Fraction(r.service_end_date) != Fraction(r.service_start_date) + Fs(smp[0]):
                    self.violate("service_end_not_exact_sum", {"id": r.id_number, "start": str(r.service_start_date), "sample": smp[0], "end": str(r.service_end_date)})
            if r.record_type == "renege":
                p = self.ren.get((r.node, r.id_number, Fraction(r.arrival_date)))
                if p is not None and Fraction(r.exit_date) != Fraction(r.arrival_date) + Fs(p):
                    self.violate("renege_not_exact_sum", {"id": r.id_number, "arrival": str(r.arrival_date), "patience": p, "exit": str(r.exit_date)})

    def on_end(self, Q, status, exc):
        self.validated = 1
        if status != "ok" or Q is None:
            return
        # arrival instants are the exact decimal partial sums of the stream's samples (only where every arrival event
        # creates exactly one accepted customer: no batching, baulking, rejection)
        feats = " ".join(self.cfg.get("features", []))
        one_per_event = not any(f in feats for f in ("batch", "baulk", "cap", "syscap"))
        for key, ids in (self.order.items() if one_per_event else ()):
            s = self.arr.get(key, [])
            tot = Fraction(0)
            for j, cid in enumerate(ids):
                if j >= len(s):
                    break
                if s[j] == float("inf"):
                    break
                tot += Fs(s[j])
                got = self.first_arrival[cid][2]
                if Fraction(got) != tot:
                    self.violate("arrival_not_exact_decimal_sum", {"node": key[0], "class": key[1], "customer": cid, "arrival": str(got),
                                                                   "exact": str(tot), "samples": s[:j + 1]})
                    return
        # every date held by the engine is exact on the 0.05 grid used by all menus and timetables of this family
        for holder, ind in self.hub.all_customers():
            for r in ind.data_records:
                for name in ("arrival_date", "service_start_date", "service_end_date", "exit_date"):
                    v = getattr(r, name)
                    if self.cfg.get("grid", True) and isinstance(v, Decimal) and (Fraction(v) * 20).denominator != 1:
                        self.violate("date_off_the_decimal_grid", {"field": name, "value": str(v), "id": r.id_number, "record_type": r.record_type})
                        return


class Spec(object):
    id = "C20"
    rule = ("every execution = one complete answer sequence of one exact-mode configuration with decimal menus that are "
            "inexact in binary; record field types, exact rational recomputation of arrival / service-end / renege "
            "instants from the logged samples, and for tie-free executions a float-mode replay of the same answer "
            "sequence; non-trivial = a Decimal service record was checked; distinct = distinct observation digest")
    assumptions = [
        "menus and timetable boundaries are multiples of 0.05, so every exact date lies on that grid",
        "float twin only for executions without simultaneous events; fields compared within 1e-9",
    ]

    def monitors(self, cfg):
        return [Monitor(cfg)]

    def nontrivial(self, cfg, res):
        return "decimal_record" in res.flags

    def families(self, tier):
        from .. import universal
        # every feature pair of the universal family that includes exact mode (types, exact sums, float twin)
        return focused(tier) + [dict(c, grid=False, family="U-exact") for c in universal.family(tier) if "exact" in c["features"]]

    def post(self, cfg, res, mons):
        out = []
        mon = next(m for m in mons if isinstance(m, Monitor))
        if res.status != "ok" or res.ties or res.violations or res.Q is None or "coincident_events" in res.flags:
            return out
        import copy
        tw = copy.deepcopy(cfg)
        tw["exact"] = False
        try:
            t = harness.run(tw, tuple(res.choices), [], strict=True, keep_Q=True)
        except env.Divergence as e:
            out.append(("float_run_takes_other_decisions", {"divergence": str(e)[:200]}))
            return out
        if t.status != "ok":
            out.append(("float_run_failed", {"status": t.status}))
            return out
        mon.validated += 1
        a = [norm_record(r) for nd in res.Q.nodes[1:] for i in nd.all_individuals for r in i.data_records]
        b = [norm_record(r) for nd in t.Q.nodes[1:] for i in nd.all_individuals for r in i.data_records]
        if len(a) != len(b):
            out.append(("float_run_record_structure_differs", {"exact": len(a), "float": len(b)}))
            return out
        for ra, rb in zip(a, b):
            for x, y in zip(ra, rb):
                if isinstance(x, float) and isinstance(y, float):
                    if abs(x - y) > 1e-9:
                        out.append(("float_run_field_differs", {"exact": list(ra), "float": list(rb)}))
                        return out
                elif x != y and not (x in (False, 0, 0.0) and y in (False, 0, 0.0)):
                    out.append(("float_run_field_differs", {"exact": [str(z) for z in ra], "float": [str(z) for z in rb]}))
                    return out
        return out


DA = [0.1, 0.3]
DS = [0.7, 0.2, 0.3]


def focused(tier):
    K = 3 if tier == "quick" else 4
    out = []
    fam = "F-exact"
    for k in ((10, 12) if tier == "quick" else (10, 12, 16, 28)):
        out.append(single("exact=%d c=1" % k, fam, c=1, K=K, arr=DA, srv=DS, exact=k, features=["exact"]))
        out.append(single("exact=%d c=2" % k, fam, c=2, K=K, arr=DA, srv=DS, exact=k, features=["exact"]))
        out.append(single("exact=%d sched" % k, fam, K=K, T=3.0, arr=DA, srv=DS, exact=k,
                          c={"sched": {"numbers": [1, 0, 2], "ends": [0.3, 0.7, 1.0], "preempt": False}}, features=["exact", "schedule"]))
        out.append(single("exact=%d sched resume" % k, fam, K=K, T=3.0, arr=DA, srv=DS, exact=k,
                          c={"sched": {"numbers": [1, 0, 2], "ends": [0.3, 0.7, 1.0], "preempt": "resume"}}, features=["exact", "schedule"]))
        out.append(single("exact=%d renege" % k, fam, c=1, K=K, arr=DA, srv=DS, exact=k, classkw={"renege": [[0.3, 0.1]]}, features=["exact", "reneging"]))
        out.append(two_class_single("exact=%d priorities" % k, fam, c=1, K=2, prios=(1, 0), arrA=DA, arrB=[0.2, 0.4], srvA=DS, srvB=DS, exact=k, features=["exact", "priorities"]))
        out.append(two_class_single("exact=%d preempt resume" % k, fam, c=1, K=2, prios=(1, 0), preempt="resume", arrA=DA, arrB=[0.2, 0.4], srvA=DS, srvB=DS,
                                    exact=k, features=["exact", "preempt_prio"]))
        out.append(tandem("exact=%d tandem block" % k, fam, c=(1, 1), caps=(None, 0), K=K, arr=DA, srv=[DS, [0.3, 0.1]], exact=k, features=["exact", "blocking"]))
    # timetables whose later cycles are not exact in binary (0.1 + 3 * 0.3), with and without an offset; slots likewise
    for k in (12, 20):
        for off in (0.0, 0.1):
            out.append(single("exact=%d sched cycle 0.3 offset %s" % (k, off), fam, K=K, T=2.0, arr=DA, srv=[0.2, 0.1], exact=k,
                              c={"sched": {"numbers": [0, 1], "ends": [0.1, 0.3], "preempt": False, "offset": off}}, features=["exact", "schedule"]))
            out.append(single("exact=%d slotted cycle 0.3 offset %s" % (k, off), fam, K=K, T=2.0, arr=DA, srv=[0.2, 0.1], exact=k,
                              c={"slotted": {"slots": [0.1, 0.3], "sizes": [1, 1], "capacitated": False, "preempt": False, "offset": off}}, features=["exact", "slotted"]))
    # high precision (binary noise of a float is visible beyond ~17 digits) and samples that Python prints in exponent notation
    for k in (20, 28):
        out.append(single("exact=%d renege (high precision)" % k, fam, c=1, K=K, arr=DA, srv=DS, exact=k, classkw={"renege": [[0.3, 0.1]]}, features=["exact", "reneging"]))
        out.append(cfg("exact=%d cct (high precision)" % k, fam, [node(c=1)],
                       {"A": klass([DA], [DS], prio=1, cct={"B": [0.3, 0.1]}), "B": klass([[0.2, 0.4]], [DS], prio=0)}, K=2, exact=k, features=["exact", "cct"]))
    # priority raised while waiting pre-empts at once; the two classes have DIFFERENT service menus
    for k in (12, 28):
        out.append(cfg("exact=%d cct raises priority + preempt resume" % k, fam, [node(c=1, preempt="resume")],
                       {"A": klass([DA], [[0.7, 0.9]], prio=1, cct={"B": [0.3, 0.1]}), "B": klass([{"values": [0.2, 0.4], "budget": 1}], [[0.3, 0.1]], prio=0)},
                       K=2, exact=k, features=["exact", "cct", "preempt_prio"]))
    out.append(single("exact=12 tiny samples", fam, c=1, K=K, arr=[0.0000125, 0.1], srv=[0.00003, 0.2], exact=12, grid=False, features=["exact", "tiny"]))
    out.append(single("exact=28 tiny samples renege", fam, c=1, K=K, arr=[0.0000125, 0.1], srv=[0.2, 0.00003], exact=28, grid=False,
                      classkw={"renege": [[0.000017, 0.3]]}, features=["exact", "tiny", "reneging"]))
    return out


SPEC = Spec()
