"""C09 Routing and class-change fidelity."""
from math import isinf

from ..families import *
from .. import oracles
from ..history import History, markers


class Monitor(object):
    prop = "C09"

    def __init__(self, cfg):
        self.cfg = cfg
        self.validated = 0
        self.kinds = {i + 1: oracles.node_kind(n) for i, n in enumerate(cfg["nodes"])}
        self.cycle_count = {}     # (class, node) -> decisions made by that Cycle router object
        self.decided = {}         # cust id -> destination decided at the routing seam
        self.jockey = {}

    def violate(self, clause, detail):
        detail["history"] = markers(self.hub)
        self.hub.violate("C09", clause, detail)

    # ---- true state at the instant of the decision --------------------------------------------------
    def in_service(self, node):
        k = self.kinds[node.id_number]
        if k in ("fixed", "sched"):
            return sum(1 for s in node.servers if s.cust)
        if k == "inf":
            return len(node.all_individuals)
        if k == "slotted":
            return sum(1 for i in node.all_individuals if i.server and i.service_start_date is not False)
        return sum(1 for i in node.all_individuals if getattr(i, "with_server", False))

    def measure(self, node_id, how):
        Q = self.hub.Q
        nd = Q.nodes[node_id]
        if node_id == -1:
            return len(nd.all_individuals)
        pop = len(nd.all_individuals)
        return pop if how == "lb" else pop - self.in_service(nd)

    def check_minimal(self, dests, how, tie, dest, ctx):
        vals = [(self.measure(d, how), d) for d in dests]
        m = min(v for v, _ in vals)
        if dest not in dests:
            self.violate("shortest_queue_pick_not_listed", dict(ctx, dests=dests, pick=dest))
            return
        mine = [v for v, d in vals if d == dest][0]
        if mine != m:
            self.violate("shortest_queue_pick_not_minimal", dict(ctx, how=how, sizes=[[d, v] for v, d in vals], pick=dest))
        elif tie == "order":
            first = [d for v, d in vals if v == m][0]
            if dest != first:
                self.violate("shortest_queue_tie_not_in_order", dict(ctx, sizes=[[d, v] for v, d in vals], pick=dest))
        if len([1 for v, _ in vals if v != vals[0][0]]) > 0:
            self.hub.flags.add("jsq_unequal")

    def on_route(self, kind, ind, node_id, dest, pre):
        d = dest.id_number
        cls = ind.customer_class
        if kind == "jockey":
            self.jockey[ind.id_number] = d
            return
        self.hub.flags.add("routed")
        self.decided[ind.id_number] = d
        spec = self.cfg["classes"][cls].get("route")
        nn = len(self.cfg["nodes"])
        ctx = {"class": cls, "node": node_id, "id": ind.id_number, "kind": kind}
        if spec is None:
            spec = {"t": "matrix", "rows": [[0.0] * nn for _ in range(nn)]}
        t = spec["t"]
        if t == "matrix":
            row = spec["rows"][node_id - 1]
            self.check_prob(list(range(1, nn + 1)), row, d, ctx)
        elif t == "network":
            r = spec["routers"][node_id - 1]
            rt = r["t"]
            if kind == "reroute" and "reroute_to" in r:
                if d != r["reroute_to"]:
                    self.violate("reroute_target_wrong", dict(ctx, expected=r["reroute_to"], got=d))
            elif rt == "direct":
                if d != r["to"]:
                    self.violate("direct_router_wrong_destination", dict(ctx, expected=r["to"], got=d))
            elif rt == "leave":
                if d != -1:
                    self.violate("leave_router_wrong_destination", dict(ctx, got=d))
            elif rt == "cycle":
                j = self.cycle_count.get((cls, node_id), 0)
                self.cycle_count[(cls, node_id)] = j + 1
                exp = r["cycle"][j % len(r["cycle"])]
                if d != exp:
                    self.violate("cycle_router_out_of_order", dict(ctx, decision_number=j, expected=exp, got=d))
            elif rt == "prob":
                self.check_prob(r["dest"], r["probs"], d, ctx)
            elif rt in ("jsq", "lb"):
                self.check_minimal(r["dest"], rt, r.get("tie", "random"), d, ctx)
        elif t == "process":
            exp = pre[0] if pre else -1
            if d != exp:
                self.violate("process_route_not_followed", dict(ctx, remaining_route=pre, got=d))
            if list(ind.route) != list(pre[1:] if pre else []):
                self.violate("process_route_not_consumed", dict(ctx, before=pre, after=list(ind.route)))
        elif t == "flex":
            if not pre:
                if d != -1:
                    self.violate("process_route_not_followed", dict(ctx, remaining_route=pre, got=d))
            else:
                group = pre[0]
                if d not in group:
                    self.violate("flexible_route_pick_not_in_group", dict(ctx, group=group, got=d))
                else:
                    if spec["choice"] in ("jsq", "lb"):
                        self.check_minimal(list(group), spec["choice"], "random", d, ctx)
                    if spec["rule"] == "any":
                        exp = pre[1:]
                    else:
                        rest = list(group)
                        rest.remove(d)           # ONE occurrence: a group may list a node twice (two visits owed)
                        exp = ([rest] if rest else []) + pre[1:]
                    if [list(g) for g in ind.route] != [list(g) for g in exp]:
                        self.violate("flexible_route_not_consumed", dict(ctx, before=pre, after=[list(g) for g in ind.route], expected=exp))
        # after-service class change (finish_service changes the class just before routing)
        if kind == "next":
            m = self.cfg["nodes"][node_id - 1].get("class_change")
            if m:
                p = m[ind.previous_class][ind.customer_class]
                self.hub.flags.add("class_change_drawn")
                if not p > 0:
                    self.violate("zero_probability_class_change", dict(ctx, **{"from": ind.previous_class, "to": ind.customer_class}))

    def check_prob(self, dests, probs, d, ctx):
        residual = 1.0 - sum(probs)
        allowed = [x for x, p in zip(dests, probs) if p > 0]
        if residual > 0:
            allowed.append(-1)
        if any(p == 0 for p in probs):
            self.hub.flags.add("zero_cell_present")
        if d not in allowed:
            lead = d in dests and all(p == 0 for p in probs[:list(dests).index(d) + 1])
            self.violate("zero_probability_transition", dict(ctx, dests=list(dests), probs=list(probs), got=d,
                                                             leading_zero_cell_reached_only_by_r_equal_0=bool(lead)))

    def on_release(self, node, dest, ind, blocked):
        exp = self.decided.pop(ind.id_number, None)
        if exp is not None and dest.id_number != exp:
            self.violate("moved_to_other_than_decided", {"id": ind.id_number, "node": node.id_number, "decided": exp, "moved_to": dest.id_number})

    def on_renege(self, node, dest, ind):
        exp = self.jockey.pop(ind.id_number, None)
        if exp is not None and dest.id_number != exp:
            self.violate("jockeyed_to_other_than_decided", {"id": ind.id_number, "node": node.id_number, "decided": exp, "moved_to": dest.id_number})

    def on_boundary(self, Q):
        mapping = {c: v.get("prio", 0) for c, v in self.cfg["classes"].items()}
        for nd in Q.transitive_nodes:
            for ind in nd.all_individuals:
                if ind.priority_class != mapping[ind.customer_class]:
                    self.violate("priority_ne_class_priority", {"id": ind.id_number, "class": ind.customer_class,
                                                                "priority": ind.priority_class, "expected": mapping[ind.customer_class]})

        # the counters join-shortest-queue / load balancing read equal the configuration ("JSQ sees the true queue lengths
        # after arbitrary histories"): customers held by a server at ordinary and scheduled nodes
        from .. import oracles as _o
        for j, nd in enumerate(Q.transitive_nodes):
            if _o.node_kind(self.cfg["nodes"][j]) not in ("fixed", "sched"):
                continue
            held = sum(1 for s in nd.servers if s.cust)
            if nd.number_in_service != held:
                self.violate("in_service_counter_ne_servers_holding_customers", {"node": nd.id_number, "counter": nd.number_in_service, "held": held,
                                                                                 "now": Q.current_time})
            if nd.number_of_individuals != len(nd.all_individuals):
                self.violate("population_counter_ne_customers_present", {"node": nd.id_number, "counter": nd.number_of_individuals,
                                                                         "present": len(nd.all_individuals)})

    def on_end(self, Q, status, exc):
        self.validated = 1


class Spec(object):
    id = "C09"
    rule = ("every execution = one complete answer sequence of one routing configuration; every routing decision is "
            "checked at the router seam against the specification and the true populations; non-trivial = at least one "
            "routing decision was taken in an execution with unequal candidate queues or a zero-probability cell or a "
            "class-change draw; distinct = distinct observation digest")
    assumptions = [
        "waiting line of a node = customers present minus customers in service (server side) at the instant of the decision",
        "random() end-points 0.0 and 1-2**-53 are explored only in the dedicated end-point family",
    ]

    def monitors(self, cfg):
        return [History(), Monitor(cfg)]

    def nontrivial(self, cfg, res):
        return "routed" in res.flags and ("jsq_unequal" in res.flags or "zero_cell_present" in res.flags or "class_change_drawn" in res.flags or "process" in cfg["features"])

    def families(self, tier):
        from .. import universal
        return (focused(tier) + universal.subset(tier, ["net_", "flex", "process", "ccm", "preempt_reroute", "sched_reroute"])
                + sched_preempt_chain(tier, fam="F-counters") + sched_preempt_two_upstream(tier, fam="F-counters"))


def focused(tier):
    K = 3 if tier == "quick" else 4
    Dl = 4 if tier == "quick" else 6
    out = []
    fam = "F-route"
    srv3 = [[1.0, 0.5], [2.0, 0.5], [1.0]]
    n3 = lambda **kw: [node(c=1, **kw), node(c=1), node(c=1)]
    out.append(cfg("matrix zero cells", fam, n3(), {"A": klass([ARR, None, None], srv3, route=matrix([[0.0, 0.5, 0.0], [0.0, 0.0, 0.5], [0.5, 0.0, 0.0]]))},
                   K=K, T=8.0, D=Dl, features=["matrix"]))
    out.append(cfg("matrix all-zero row then exit", fam, n3(), {"A": klass([ARR, None, None], srv3, route=matrix([[0.0, 0.0, 1.0], [0.0, 0.0, 0.0], [0.0, 0.5, 0.0]]))},
                   K=K, T=10.0, features=["matrix"]))
    for name, first in (
        ("direct", direct(2)), ("leave", leave()), ("cycle", {"t": "cycle", "cycle": [2, 3, -1]}),
        ("cycle-repeat", {"t": "cycle", "cycle": [2, 2, 3]}),
        ("prob zero weights", {"t": "prob", "dest": [2, 3], "probs": [0.0, 0.5]}),
        ("jsq random", {"t": "jsq", "dest": [2, 3], "tie": "random"}), ("jsq order", {"t": "jsq", "dest": [3, 2], "tie": "order"}),
        ("lb random", {"t": "lb", "dest": [2, 3], "tie": "random"}), ("lb order", {"t": "lb", "dest": [2, 3], "tie": "order"}),
    ):
        out.append(cfg("net " + name, fam, n3(), {"A": klass([ARR, None, {"values": [1.0, 2.0], "budget": 1}], [[1.0, 0.5], [2.0, 0.5], [2.0, 1.0]],
                                                             route=network(first, leave(), leave()))},
                       K=K if "jsq" not in name and "lb" not in name else 2, T=10.0, features=["network", name.split()[0]]))
    # JSQ / LB towards special node kinds
    for nm, kinds in (("ps+inf", [dict(c=2, ps=True), dict(c="inf")]), ("c2+c1", [dict(c=2), dict(c=1)]),
                      ("slotted+c1", [dict(c={"slotted": {"slots": [1.0, 2.0], "sizes": [1, 1], "capacitated": False, "preempt": False}}), dict(c=1)])):
        for how in ("jsq", "lb"):
            out.append(cfg("%s to %s" % (how, nm), fam, [node(c=1)] + [node(**k) for k in kinds],
                           {"A": klass([ARR, None, None], [[0.5], [2.0, 1.0], [2.0, 1.0]],
                                       route=network({"t": how, "dest": [2, 3], "tie": "order"}, leave(), leave()))},
                           K=K, T=10.0, features=["network", how]))
    # JSQ / LB towards a scheduled node: customers started at a shift change must count as in service
    for how in ("jsq", "lb"):
        out.append(cfg("%s to sched+c1" % how, fam,
                       [node(c=1), node(c={"sched": {"numbers": [0, 1], "ends": [2.0, 6.0], "preempt": False}}), node(c=1)],
                       {"A": klass([[0.5, 1.0], None, None], [[0.5], [4.0, 1.0], [3.0, 1.0]],
                                   route=network({"t": how, "dest": [3, 2], "tie": "order"}, leave(), leave()))},
                       K=4 if tier == "quick" else 5, T=12.0, features=["network", how, "schedule"]))
    # pre-emptive reroute at the JSQ destinations: the in-service count must survive it
    for how in ("jsq", "lb"):
        out.append(cfg("%s with preempt reroute at destinations" % how, fam,
                       [node(c=1), node(c=1, preempt="reroute"), node(c=1, preempt="reroute")],
                       {"A": klass([[0.5, 1.0], None, None], [[0.5], [2.0], [2.0]], prio=1,
                                   route=network({"t": how, "dest": [2, 3], "tie": "order"}, leave(), leave())),
                        "B": klass([[1.0], [1.5, 2.0], None], [[0.5], [2.0], [2.0]], prio=0,
                                   route=network({"t": how, "dest": [2, 3], "tie": "order"}, leave(), leave()))},
                       K=2, T=10.0, features=["network", how, "preempt_reroute"]))
    for routes in ([[], [2], [2, 1, 2]], [[3, 2], [2, 3, 1]]):
        out.append(cfg("process %s" % (routes,), fam, n3(), {"A": klass([ARR, None, None], srv3, route={"t": "process", "routes": routes})},
                       K=K, T=12.0, D=Dl, features=["process"]))
    out.append(cfg("process + preempt reroute", fam, [node(c=1, preempt="reroute"), node(c=1), node(c=1)],
                   {"A": klass([ARR, None, None], srv3, prio=1, route={"t": "process", "routes": [[2, 3], [3]]}),
                    "B": klass([[1.0, 2.0], None, None], srv3, prio=0, route={"t": "process", "routes": [[2], []]})},
                   K=2, T=12.0, D=Dl, features=["process", "preempt_reroute"]))
    for rule in ("any", "all"):
        for choice in ("random", "jsq", "lb"):
            out.append(cfg("flex %s %s" % (rule, choice), fam, n3(),
                           {"A": klass([ARR, None, None], srv3, route={"t": "flex", "rule": rule, "choice": choice, "routes": [[[2, 3]], [[2, 3], [1]], []]})},
                           K=K if choice == "random" else 2, T=12.0, D=Dl + 1, features=["flex"]))
    for choice in ("random", "jsq"):
        out.append(cfg("flex all %s, node listed twice in a group" % choice, fam, n3(),
                       {"A": klass([ARR, None, None], srv3, route={"t": "flex", "rule": "all", "choice": choice, "routes": [[[2, 2, 3]], [[3, 3], [1]], []]})},
                       K=2, T=14.0, D=Dl + 1, features=["flex"]))
    # class change matrices with zero cells, with priorities
    ccm = {"A": {"A": 0.5, "B": 0.5}, "B": {"A": 0.0, "B": 1.0}}
    for prA, prB in ((1, 0), (0, 1), (0, 0)):
        out.append(cfg("ccm zero cells prio=%d%d" % (prA, prB), fam, [node(c=1, class_change=ccm), node(c=1, class_change={"A": {"A": 1.0, "B": 0.0}, "B": {"A": 0.5, "B": 0.5}})],
                       {"A": klass([ARR, None], [SRV2, [1.0, 0.5]], route=matrix([[0.0, 1.0], [0.0, 0.0]]), prio=prA),
                        "B": klass([{"values": [1.0, 2.0], "budget": 1}, None], [SRV2, [1.0, 0.5]], route=matrix([[0.0, 0.5], [0.0, 0.0]]), prio=prB)},
                       K=2, T=10.0, features=["ccm"]))
    out.append(cfg("ccm + blocking", fam, [node(c=1, class_change=ccm), node(c=1, cap=0)],
                   {"A": klass([ARR, None], [[1.0, 0.5], [2.0, 1.0]], route=matrix([[0.0, 1.0], [0.0, 0.0]]), prio=1),
                    "B": klass([[1.0, 2.0], None], [[1.0, 0.5], [2.0, 1.0]], route=matrix([[0.0, 1.0], [0.0, 0.0]]), prio=0)},
                   K=2, T=12.0, D=Dl + 1, features=["ccm", "blocking"]))
    # class change after service at node 1, then pre-emptive re-routing at node 2 with class-dependent re-routing targets
    ccm1 = {"A": {"A": 0.0, "B": 1.0}, "B": {"A": 0.0, "B": 1.0}, "C": {"A": 0.0, "B": 0.0, "C": 1.0}}
    for k in ("A", "B"):
        ccm1[k]["C"] = 0.0
    out.append(cfg("ccm then reroute by class", fam, [node(c=1, class_change=ccm1), node(c=1, preempt="reroute"), node(c=1), node(c=1)],
                   {"A": klass([{"values": [0.5], "budget": 1}, None, None, None], [[0.5], [4.0], [1.0], [1.0]], prio=1,
                               route=network(direct(2), direct(-1, reroute_to=4), leave(), leave())),
                    "B": klass([None, None, None, None], [[0.5], [4.0, 3.0], [1.0], [1.0]], prio=1,
                               route=network(direct(2), direct(-1, reroute_to=3), leave(), leave())),
                    "C": klass([None, {"values": [2.0, 2.5], "budget": 1}, None, None], [[0.5], [1.0], [1.0], [1.0]], prio=0,
                               route=network(direct(2), direct(-1, reroute_to=3), leave(), leave()))},
                   K=1, T=12.0, features=["ccm", "preempt_reroute", "network"]))
    # end points of random(): explicit answers 0.0 and 1-2**-53 for every draw
    eps = [0.5, 0.0, 1.0 - 2.0 ** -53]
    out.append(cfg("endpoints matrix", "F-endpoints", n3(), {"A": klass([ARR, None, None], srv3, route=matrix([[0.0, 0.5, 0.0], [0.0, 0.0, 0.5], [0.5, 0.0, 0.0]]))},
                   K=2, T=8.0, D=3, forced_uniform=eps, features=["matrix", "endpoints"]))
    out.append(cfg("endpoints prob router", "F-endpoints", n3(), {"A": klass([ARR, None, None], srv3,
                   route=network({"t": "prob", "dest": [2, 3], "probs": [0.0, 0.5]}, leave(), leave()))},
                   K=2, T=8.0, D=3, forced_uniform=eps, features=["network", "endpoints"]))
    out.append(cfg("endpoints ccm", "F-endpoints", [node(c=1, class_change={"A": {"A": 0.0, "B": 1.0}, "B": {"A": 0.0, "B": 1.0}})],
                   {"A": klass([ARR], [SRV2], prio=0), "B": klass([[1.0, 2.0]], [SRV2], prio=0)},
                   K=2, T=8.0, D=3, forced_uniform=eps, features=["ccm", "endpoints"]))
    return out


SPEC = Spec()
