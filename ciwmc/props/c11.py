"""C11 Pre-emptive priorities."""
from ..families import *
from .. import oracles
from ..history import History, markers, _called_from


class Monitor(object):
    prop = "C11"

    def __init__(self, cfg):
        self.cfg = cfg
        self.validated = 0
        self.opts = {i + 1: n.get("preempt", False) for i, n in enumerate(cfg["nodes"])}
        self.sched = {}
        for i, n in enumerate(cfg["nodes"]):
            c = n.get("c")
            if isinstance(c, dict) and "sched" in c and c["sched"].get("preempt"):
                self.sched[i + 1] = (oracles.timetable_of(n), c["sched"]["preempt"])
        self.planned = {}     # (node, id) -> (start, end) seen at the last boundary
        self.samples = {}     # (node, id) -> [(t, value)]
        self.reroute_target = {}

    def violate(self, clause, detail):
        detail["history"] = markers(self.hub)
        self.hub.violate("C11", clause, detail)

    def on_sample(self, menu, t, ind, v):
        if menu.kind == "srv" and ind is not None:
            # (the number of records the customer has when the sample is drawn tells which visit it belongs to: the
            #  service record of a visit is written before the customer is accepted - and sampled for - anywhere else)
            self.samples.setdefault((menu.node, ind.id_number), []).append((t, v, len(ind.data_records)))

    def on_route(self, kind, ind, node_id, dest, pre):
        if kind == "reroute":
            self.reroute_target[ind.id_number] = dest.id_number

    def on_detach(self, server):
        node = server.node
        if not self.opts.get(node.id_number):
            return
        victim = server.cust
        if not victim or not _called_from("preempt"):
            return
        self.hub.flags.add("preempted")
        # the victim must be a lowest-priority customer in service, the most recently started among those
        r = victim.data_records[-1] if victim.data_records else None
        if r is None or r.record_type != "interrupted service" or r.exit_date != self.hub.Q.current_time:
            self.violate("preemption_not_recorded", {"node": node.id_number, "victim": victim.id_number})
            return
        vstart = r.service_start_date
        inservice = [(s.cust.priority_class, s.cust.service_start_date if s.cust is not victim else vstart, s.cust.id_number)
                     for s in node.servers if s.cust]
        worst = max(p for p, _, _ in inservice)
        if victim.priority_class != worst:
            self.violate("victim_not_lowest_priority", {"node": node.id_number, "victim": [victim.id_number, victim.priority_class], "in_service": inservice})
        else:
            latest = max(st for p, st, _ in inservice if p == worst and st is not False)
            if vstart != latest:
                self.violate("victim_not_most_recently_started", {"node": node.id_number, "victim": [victim.id_number, vstart], "in_service": inservice})

    def on_boundary(self, Q):
        now = Q.current_time
        for nd in Q.transitive_nodes:
            nid = nd.id_number
            opt = self.opts.get(nid)
            if not opt or oracles.node_kind(self.cfg["nodes"][nid - 1]) not in ("fixed", "sched"):
                continue
            held = {id(s.cust): s for s in nd.servers if s.cust}
            waiting = [i for i in nd.all_individuals if id(i) not in held]
            # (scheduled nodes: customers finishing on overtime servers are not candidates for a pre-emption)
            on_duty = [s for s in nd.servers if s.cust and not s.offduty]
            if waiting and on_duty:
                best_waiting = min(i.priority_class for i in waiting)
                worst_served = max(s.cust.priority_class for s in on_duty)
                if best_waiting < worst_served:
                    self.violate("priority_inversion", {"node": nid, "now": now,
                                                         "waiting": [[i.id_number, i.priority_class] for i in waiting],
                                                         "in_service": [[s.cust.id_number, s.cust.priority_class] for s in nd.servers if s.cust]})
            for ind in nd.all_individuals:
                if id(ind) in held and ind.service_start_date is not False and ind.service_end_date is not False:
                    self.planned[(nid, ind.id_number)] = (ind.service_start_date, ind.service_end_date)
        for ind, r in self.hub.new_records():
            opt = self.opts.get(r.node)
            if r.node in self.sched and r.record_type == "service":
                self.visit(ind, r, opt)
                continue
            if not opt:
                continue
            key = (r.node, r.id_number)
            if r.record_type == "interrupted service":
                if r.exit_date != now:
                    self.violate("interruption_not_at_clock", {"id": r.id_number, "exit": r.exit_date, "now": now})
                pl = self.planned.get(key)
                if pl is not None and pl[0] == r.service_start_date and r.service_time != pl[1] - pl[0]:
                    self.violate("interrupted_record_service_time_ne_intended", {"id": r.id_number, "node": r.node, "service_time": r.service_time,
                                                                                 "planned": [pl[0], pl[1]]})
                if opt == "reroute":
                    tgt = self.reroute_target.pop(r.id_number, None)
                    if tgt is None or r.destination != tgt:
                        self.violate("reroute_record_destination_wrong", {"id": r.id_number, "record_destination": r.destination, "router_target": tgt})
                    loc = [h.id_number for h, i in self.hub.all_customers() if i is ind]
                    if tgt is not None and loc != [tgt]:
                        # it may already have moved on from an infinite/instant node only via later events: same event => must be there
                        self.violate("rerouted_victim_not_at_target", {"id": r.id_number, "target": tgt, "at": loc})
            elif r.record_type == "service":
                self.visit(ind, r, opt)

    def visit(self, ind, r, opt):
        """time identities of one completed visit at a pre-emptive node"""
        recs_all = ind.data_records
        idx = max(k for k, x in enumerate(recs_all) if x is r)
        lo = idx
        while lo > 0:
            x = recs_all[lo - 1]
            in_place = (x.record_type == "interrupted service" and x.node == r.node
                        and isinstance(x.destination, float) and x.destination != x.destination)
            if not in_place:
                break
            lo -= 1
        inter = recs_all[lo:idx]
        # the samples of THIS visit: drawn while the customer had between lo and idx records
        smp = [(t, v) for (t, v, n) in self.samples.get((r.node, r.id_number), []) if lo <= n <= idx]
        if not inter:
            return
        if r.node in self.sched:
            # mechanism of every interruption of this visit: at a shift boundary the schedule's option applies
            tt, sopt = self.sched[r.node]
            kinds = set(sopt if tt.is_boundary(x.exit_date) else opt for x in inter)
            if len(kinds) != 1 or None in kinds or False in kinds:
                return           # mixed mechanisms in one visit: no single identity applies
            opt = kinds.pop()
            if any(b.is_blocked for b in [ind]) or opt == "reroute":
                return
        self.hub.flags.add("visit_with_interruption")
        ctx = {"id": r.id_number, "node": r.node, "option": opt, "samples": smp,
               "interruptions": [[x.service_start_date, x.exit_date, x.service_time] for x in inter],
               "final": [r.service_start_date, r.service_end_date, r.service_time]}
        if opt == "resume":
            if len(smp) != 1:
                self.violate("resume_sample_count", ctx)
                return
            # (an interrupted record's service_time is the requirement remaining at its start; a segment that lasts longer
            #  ended in a blockage - the customer was interrupted at a shift end WHILE BLOCKED, deliberate and pinned by the
            #  suite - and the blocked part is not service)
            served = sum(min(x.exit_date - x.service_start_date, x.service_time) for x in inter) + (r.service_end_date - r.service_start_date)
            if served != smp[0][1]:
                self.violate("resume_total_service_ne_requirement", dict(ctx, served=served))
        elif opt == "restart":
            if len(smp) != 1:
                self.violate("restart_sample_count", ctx)
                return
            if r.service_time != smp[0][1] or any(x.service_time != smp[0][1] for x in inter):
                self.violate("restart_duration_ne_original", ctx)
        elif opt == "resample":
            if len(smp) != len(inter) + 1:
                self.violate("resample_sample_count", ctx)
                return
            if r.service_time != smp[-1][1] or any(x.service_time != s[1] for x, s in zip(inter, smp)):
                self.violate("resample_duration_ne_fresh_sample", ctx)

    def on_end(self, Q, status, exc):
        self.validated = 1


class Spec(object):
    id = "C11"
    rule = ("every execution = one complete answer sequence of one pre-emptive-priority configuration; non-trivial = a "
            "pre-emption happened; distinct = distinct observation digest")
    assumptions = [
        "nodes whose customers are never blocked (infinite capacities downstream), priority pre-emption only (no schedules)",
        "ties between equal service start dates of equal-priority victims are not prescribed",
    ]

    def monitors(self, cfg):
        return [History(), Monitor(cfg)]

    def nontrivial(self, cfg, res):
        return "preempted" in res.flags

    def explicit_families(self, tier):
        # complete state-space closure of the shared small networks (the monitor judges every transition of the graph)
        return explicit_basic(tier) if tier != "quick" else []     # (pre-emptive priorities starve: the state space is infinite, see DESIGN 13.7)

    def families(self, tier):
        from .. import universal
        # priority pre-emption only, customers never blocked (the statement's quantifier)
        return focused(tier) + universal.subset(tier, ["preempt_"], exclude=["sched", "slotted", "cap", "ps_", "cinf", "c0"])


def focused(tier):
    out = []
    fam = "F-preempt"
    K2 = 2 if tier == "quick" else 3
    for opt in ("resume", "restart", "resample"):
        for c in (1, 2):
            out.append(two_class_single("%s c=%d" % (opt, c), fam, c=c, K=K2, preempt=opt, prios=(1, 0),
                                        srvA=[3.0, 2.0], srvB=[0.5, 1.0], arrA=[0.5, 1.0], arrB=[1.0, 0.75], T=24.0, features=["preempt_prio", opt]))
        # three levels, three classes
        cl = {}
        for nm, p, a, s in zip("ABC", (2, 1, 0), ([0.5], [1.0, 1.5], [1.25, 2.0]), ([4.0, 3.0], [2.0, 1.0], [0.5, 1.0])):
            cl[nm] = klass([a], [s], prio=p)
        out.append(cfg("%s 3 levels c=1" % opt, fam, [node(c=1, preempt=opt)], cl, K=1 if tier == "quick" else 2, T=24.0, features=["preempt_prio", opt]))
        out.append(cfg("%s 3 levels c=2" % opt, fam, [node(c=2, preempt=opt)], cl, K=1 if tier == "quick" else 2, T=24.0, features=["preempt_prio", opt]))
        # equal priority victims with different start dates (c=3)
        out.append(cfg("%s c=3 two low one high" % opt, fam, [node(c=3, preempt=opt)],
                       {"A": klass([[0.5, 0.25]], [[4.0, 3.0]], prio=1), "B": klass([[1.5, 2.0]], [[0.5, 1.0]], prio=0)},
                       K=3 if tier == "quick" else 4, T=24.0, features=["preempt_prio", opt]))
        # priority raised while waiting
        out.append(cfg("%s cct raises priority" % opt, fam, [node(c=1, preempt=opt)],
                       {"A": klass([[0.5, 1.0]], [[3.0, 2.0]], prio=1, cct={"B": [0.5, 1.5]}), "B": klass([[1.0, 2.0]], [[0.5, 1.0]], prio=0)},
                       K=2, T=24.0, features=["preempt_prio", "cct", opt]))
        # a timed class change that LOWERS the priority, pending when the customer is started by a shift change
        out.append(cfg("%s cct lowers priority, started by a shift change" % opt, fam,
                       [node(c={"sched": {"numbers": [0, 1], "ends": [2.0, 14.0], "preempt": False}}, preempt=opt)],
                       {"A": klass([{"values": [0.5, 1.0], "budget": 2}], [[6.0, 4.0]], prio=0, cct={"B": [3.0, 2.0]}), "B": klass([None], [[6.0, 4.0]], prio=1)},
                       K=2, T=24.0, features=["preempt_prio", "cct", "schedule", opt]))
    out += ties_and_disciplines(tier)
    for c in (1, 2):
        out.append(cfg("reroute c=%d" % c, fam, [node(c=c, preempt="reroute"), node(c=1)],
                       {"A": klass([[0.5, 1.0], None], [[3.0, 2.0], [1.0]], prio=1, route=network(direct(-1, reroute_to=2), leave())),
                        "B": klass([[1.0, 0.75], None], [[0.5, 1.0], [1.0]], prio=0, route=network(direct(-1, reroute_to=2), leave()))},
                       K=K2, T=24.0, features=["preempt_prio", "reroute"]))
    out.append(cfg("reroute matrix", fam, [node(c=1, preempt="reroute"), node(c=1)],
                   {"A": klass([[0.5, 1.0], None], [[3.0, 2.0], [1.0]], prio=1, route=matrix([[0.0, 0.5], [0.0, 0.0]])),
                    "B": klass([[1.0, 0.75], None], [[0.5, 1.0], [1.0]], prio=0, route=matrix([[0.0, 0.5], [0.0, 0.0]]))},
                   K=2, T=24.0, features=["preempt_prio", "reroute"]))
    return out


def ties_and_disciplines(tier, fam="F-preempt"):
    """pre-emption landing exactly on the victim's end of service (remaining time 0), and disciplines under which the
    start order of equal-priority customers differs from their arrival order"""
    out = []
    for opt in ("resume", "restart", "resample"):
        out.append(cfg("%s tie with end of service" % opt, fam, [node(c=1, preempt=opt)],
                       {"A": klass([{"values": [0.5], "budget": 2 if tier != "quick" else 1}], [[2.0, 1.0]], prio=1),
                        "B": klass([{"values": [2.5, 1.5], "budget": 1}], [[0.5, 1.0]], prio=0)}, K=1, T=20.0, features=["preempt_prio", opt, "ties"]))
        for disc in ("LIFO", "SIRO"):
            out.append(cfg("%s c=2 %s" % (opt, disc), fam, [node(c=2, preempt=opt, discipline=disc)],
                           {"A": klass([[0.5, 0.25]], [[3.0, 5.0]], prio=1), "B": klass([{"values": [4.0, 6.0], "budget": 1}], [[0.5, 1.0]], prio=0)},
                           K=4 if tier == "quick" else 5, T=24.0, D=5 if tier == "quick" else 8, features=["preempt_prio", opt, disc]))
    # a node with BOTH pre-emption mechanisms and different options (C10/C12 also run these)
    for sopt, popt in (("resume", "restart"), ("restart", "resume"), ("resample", "resume")):
        out.append(cfg("sched %s + prio %s" % (sopt, popt), fam,
                       [node(c={"sched": {"numbers": [1, 0], "ends": [2.0, 3.0], "preempt": sopt}}, preempt=popt)],
                       {"A": klass([{"values": [0.5, 1.0], "budget": 2}], [[3.0, 2.0]], prio=1), "B": klass([{"values": [4.5, 1.25], "budget": 1}], [[0.5, 1.0]], prio=0)},
                       K=2, T=20.0, features=["preempt_prio", "preempt_sched", "mixed_options"]))
    return out


SPEC = Spec()
