"""C07 Type I blocking."""
from ..families import *
from .. import oracles
from ..history import History, markers

INF = float("inf")


class Monitor(object):
    prop = "C07"

    def __init__(self, cfg):
        self.cfg = cfg
        self.validated = 0
        self.caps = {i + 1: oracles.capacity(n) for i, n in enumerate(cfg["nodes"])}
        self.kinds = {i + 1: oracles.node_kind(n) for i, n in enumerate(cfg["nodes"])}
        self.shadow = {i + 1: [] for i in range(len(cfg["nodes"]))}   # fifo_block[dest] = [(from node, id)]
        self.block_time = {}
        self.finishing = None
        self.moved = 0

    def violate(self, clause, detail):
        detail["history"] = markers(self.hub)
        self.hub.violate("C07", clause, detail)

    def pop(self, node):
        return len(node.all_individuals)

    # ---- moment-of-decision seams ----------------------------------------------------------------
    def on_block(self, node, dest, ind):
        cap = self.caps.get(dest.id_number)
        now = self.hub.Q.current_time
        if cap is not None and self.pop(dest) < cap:
            self.violate("blocked_although_space", {"node": node.id_number, "dest": dest.id_number, "id": ind.id_number,
                                                     "dest_population": self.pop(dest), "capacity": cap})
        if self.kinds[node.id_number] in ("fixed", "sched") and not (ind.server and ind.server.cust is ind):
            self.violate("blocked_without_server", {"node": node.id_number, "id": ind.id_number})
        self.shadow[dest.id_number].append((node.id_number, ind.id_number))
        self.block_time[ind.id_number] = now
        self.moved += 1

    def on_release(self, node, dest, ind, blocked):
        d = dest.id_number
        self.moved += 1
        if d == -1:
            if blocked:
                self.violate("released_blocked_customer_to_exit", {"node": node.id_number, "id": ind.id_number})
            return
        cap = self.caps.get(d)
        if blocked:
            q = self.shadow[d]
            me = (node.id_number, ind.id_number)
            if not q or q[0] != me:
                self.violate("unblocked_out_of_order", {"dest": d, "released": list(me), "blocked_order": [list(x) for x in q]})
            if me in q:
                q.remove(me)
            self.hub.flags.add("unblocked")
        if cap is not None and self.pop(dest) >= cap and not self.reroute_in_progress():
            self.violate("moved_into_full_node", {"node": node.id_number, "dest": d, "id": ind.id_number,
                                                   "dest_population": self.pop(dest), "capacity": cap})

    def reroute_in_progress(self):
        return False

    def on_pre_event(self, node, et):
        self.finishing = (getattr(node, "id_number", 0), et)
        self.moved = 0

    def on_boundary(self, Q):
        now = Q.current_time
        # every end of service either moved on or was blocked
        if self.finishing is not None and self.finishing[1] == "end_service" and self.moved == 0:
            self.violate("service_end_without_move_or_block", {"node": self.finishing[0], "now": now})
        self.finishing = None
        for nd in Q.transitive_nodes:
            nid = nd.id_number
            # blocked queue equals the FIFO shadow
            if [tuple(x) for x in nd.blocked_queue] != self.shadow[nid]:
                self.violate("blocked_queue_ne_shadow", {"dest": nid, "blocked_queue": [list(x) for x in nd.blocked_queue],
                                                          "shadow": [list(x) for x in self.shadow[nid]]})
            for ind in nd.all_individuals:
                if ind.is_blocked:
                    held = hasattr(nd, "servers") and any(s.cust is ind for s in nd.servers)
                    if not held and self.kinds[nid] in ("fixed", "sched"):
                        self.violate("blocked_customer_without_server", {"node": nid, "id": ind.id_number})
                    d = ind.destination
                    if d is False or d is None:
                        self.violate("blocked_customer_without_destination", {"node": nid, "id": ind.id_number})
                        continue
                    cap = self.caps.get(d)
                    dest = Q.nodes[d]
                    if cap is not None and self.pop(dest) < cap:
                        self.violate("left_blocked_while_space", {"node": nid, "id": ind.id_number, "dest": d,
                                                                   "dest_population": self.pop(dest), "capacity": cap, "now": now})
                    if (nid, ind.id_number) not in self.shadow.get(d, []):
                        self.violate("blocked_customer_not_queued_at_destination", {"node": nid, "id": ind.id_number, "dest": d})
        for ind, r in self.hub.new_records():
            if r.record_type == "service":
                bt = self.block_time.pop(r.id_number, None)
                if bt is None:
                    if r.time_blocked != 0:
                        self.violate("time_blocked_without_blockage", {"id": r.id_number, "node": r.node, "time_blocked": r.time_blocked})
                else:
                    if r.time_blocked != r.exit_date - bt or r.service_end_date != bt:
                        self.violate("time_blocked_wrong", {"id": r.id_number, "node": r.node, "time_blocked": r.time_blocked,
                                                             "blocked_at": bt, "exit": r.exit_date, "service_end_date": r.service_end_date})

    def on_end(self, Q, status, exc):
        self.validated = 1


class Spec(object):
    id = "C07"
    rule = ("every execution = one complete answer sequence of one restricted network; non-trivial = some customer was "
            "blocked and later unblocked; distinct = distinct observation digest")
    assumptions = [
        "no pre-emption of any kind in the families (quantifier: non-pre-emptive schedules, priorities without pre-emption)",
        "destination 'full' = true population >= fixed servers + queue capacity; schedule nodes only as upstream nodes",
    ]

    def monitors(self, cfg):
        return [History(), Monitor(cfg)]

    def nontrivial(self, cfg, res):
        return "unblocked" in res.flags

    def families(self, tier):
        return focused(tier)

    def explicit_families(self, tier):
        out = [tandem("E tandem block syscap=3", "E", c=(1, 1), caps=(None, 0), K=None, T=BIG, system_capacity=3, features=["explicit", "blocking"])]
        if tier != "quick":
            out.append(tandem("E tandem c=(2,1) cap=1 syscap=4", "E", c=(2, 1), caps=(None, 1), K=None, T=BIG, system_capacity=4, features=["explicit", "blocking"]))
            out.append(cfg("E cycle2 syscap=3", "E", [node(c=1, cap=1), node(c=1, cap=0)],
                           {"A": klass([ARR, None], [SRV2, SRV2], route=matrix([[0.0, 1.0], [0.5, 0.0]]))}, K=None, T=BIG, system_capacity=3, features=["explicit", "blocking"]))
            out.append(cfg("E two upstream one dest syscap=3", "E", [node(c=1), node(c=1), node(c=1, cap=0)],
                           {"A": klass([ARR, [1.0, 2.0], None], [[1.0, 0.5], [1.0, 0.5], [2.0, 4.0]], route=matrix([[0.0, 0.0, 1.0], [0.0, 0.0, 1.0], [0.0, 0.0, 0.0]]))},
                           K=None, T=BIG, system_capacity=3, features=["explicit", "blocking"]))
        return out


def focused(tier):
    K = 3 if tier == "quick" else 4
    Dc = 4 if tier == "quick" else 6
    out = []
    fam = "F-block"
    for c in ((1, 1), (2, 1), (1, 2), (2, 2)):
        for cap in (0, 1):
            out.append(tandem("tandem c=%s cap=%s" % (c, cap), fam, c=c, caps=(None, cap), K=K, features=["blocking"]))
    out.append(cfg("selfloop c=1 cap=1", fam, [node(c=1, cap=1)], {"A": klass([ARR], [SRV2], route=matrix([[0.5]]))},
                   K=K, T=8.0, D=Dc, features=["blocking", "selfloop"]))
    out.append(cfg("selfloop c=2 cap=0", fam, [node(c=2, cap=0)], {"A": klass([ARR], [SRV2], route=matrix([[0.5]]))},
                   K=K, T=8.0, D=Dc, features=["blocking", "selfloop"]))
    out.append(cfg("cycle2", fam, [node(c=1, cap=1), node(c=1, cap=0)],
                   {"A": klass([ARR, None], [SRV2, SRV2], route=matrix([[0.0, 1.0], [0.5, 0.0]]))}, K=K, T=8.0, D=Dc - 1, features=["blocking"]))
    out.append(cfg("fork-join", fam, [node(c=2), node(c=1, cap=0), node(c=1, cap=0)],
                   {"A": klass([ARR, None, None], [[1.0, 0.5], SRV2, SRV2], route=matrix([[0.0, 0.5, 0.5], [0.0, 0.0, 1.0], [0.0, 0.0, 0.0]]))},
                   K=K, T=14.0, D=Dc, features=["blocking"]))
    out.append(cfg("two upstream one dest", fam, [node(c=1), node(c=1), node(c=1, cap=0)],
                   {"A": klass([ARR, [1.0, 2.0], None], [[1.0, 0.5], [1.0, 0.5], [2.0, 4.0]], route=matrix([[0.0, 0.0, 1.0], [0.0, 0.0, 1.0], [0.0, 0.0, 0.0]]))},
                   K=2, T=16.0, features=["blocking", "fifo"]))
    out.append(cfg("prio tandem", fam, [node(c=1), node(c=1, cap=0)],
                   {"A": klass([ARR, None], [SRV2, SRV2], route=matrix([[0.0, 1.0], [0.0, 0.0]]), prio=1),
                    "B": klass([[1.0, 2.0], None], [SRV2, SRV2], route=matrix([[0.0, 1.0], [0.0, 0.0]]), prio=0)}, K=2, features=["blocking", "priorities"]))
    out.append(tandem("sched upstream", fam, c=({"sched": {"numbers": [1, 0], "ends": [2.0, 3.0], "preempt": False}}, 1),
                      caps=(None, 0), K=K, T=10.0, features=["schedule", "blocking"]))
    out.append(tandem("sched upstream [2,0,1]", fam, c=({"sched": {"numbers": [2, 0, 1], "ends": [1.5, 2.5, 4.0], "preempt": False}}, 1),
                      caps=(None, 0), K=K, T=10.0, features=["schedule", "blocking"]))
    out.append(cfg("renege at destination", fam, [node(c=1), node(c=1, cap=1)],
                   {"A": klass([ARR, None], [[1.0, 0.5], [4.0, 2.0]], route=matrix([[0.0, 1.0], [0.0, 0.0]]), renege=[None, [1.0, 2.5]])},
                   K=K, T=16.0, features=["blocking", "reneging"]))
    # nodes without server objects (infinite / slotted / PS) upstream of a full node, simultaneous service ends
    out += noserver_upstream_block(tier, ps=False, preempt=False)   # PS nodes with blocking are outside the quantifier (cf. C19)
    return out


SPEC = Spec()
