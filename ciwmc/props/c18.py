"""C18 Deadlock detection is sound and complete; times to deadlock are exact."""
from math import isinf

from ..families import *
from .. import oracles
from ..history import History, markers


def has_room(Q, n):
    """the destination of a blocked customer has a free place (the customer 'can still move': no genuine deadlock).  Judged at
    nodes with a fixed number of servers only; with a schedule the capacity notion is outside the statement (see focused())"""
    nd = Q.nodes[n]
    if nd.schedule is not None or isinf(nd.node_capacity):
        return False
    return len(nd.all_individuals) < nd.node_capacity


def deadlocked_set(Q):
    """greatest fix-point: nodes all of whose servers hold customers blocked towards FULL nodes of the set"""
    S = set()
    for nd in Q.transitive_nodes:
        if isinf(nd.c) or not hasattr(nd, "servers") or not nd.servers:
            continue
        if all(s.cust and s.cust.is_blocked for s in nd.servers):
            S.add(nd.id_number)
    changed = True
    while changed:
        changed = False
        for n in list(S):
            nd = Q.nodes[n]
            if any(s.cust.destination not in S or has_room(Q, s.cust.destination) for s in nd.servers):
                S.discard(n)
                changed = True
    return S


class Monitor(object):
    prop = "C18"

    def __init__(self, cfg):
        self.cfg = cfg
        self.validated = 0
        self.dead = False
        self.first_visit = {}
        self.last_t = None
        from .c17 import Monitor as M17
        self.shadow = M17(cfg)          # recomputes the tracker state from the configuration (blockage order shadow)

    def on_block(self, node, dest, ind):
        self.shadow.on_block(node, dest, ind)

    def on_release(self, node, dest, ind, blocked):
        self.shadow.on_release(node, dest, ind, blocked)

    def violate(self, clause, detail):
        self.hub.violate("C18", clause, detail)

    def on_init(self, Q):
        self.first_visit[Q.statetracker.hash_state()] = 0

    def on_pre_event(self, node, et):
        if self.cfg.get("judge") == "crash_only":
            return
        if self.dead:
            self.violate("continued_after_deadlock", {"deadlocked_nodes": sorted(self.dead), "clock": self.hub.Q.current_time, "event": et})
            self.dead = False

    def on_boundary(self, Q):
        now = Q.current_time
        if self.dead and self.cfg.get("judge") != "crash_only":
            # (exact mode has no pre-event seam: a further boundary after a deadlocked one says the same)
            self.violate("continued_after_deadlock", {"deadlocked_nodes": sorted(self.dead), "clock": now, "event": "next boundary"})
            self.dead = False
        self.last_t = now
        st = getattr(self.hub, "last_hash", None)
        truths = self.shadow.truths(Q)
        if st not in truths and self.cfg.get("judge") != "crash_only":
            # 'each visited tracker state': the keys of times_to_deadlock are states of the system, not of a drifted counter
            self.violate("visited_state_ne_configuration", {"tracked": str(st), "configuration": str(truths[0]), "clock": now})
        if st not in self.first_visit:
            self.first_visit[st] = now
        S = deadlocked_set(Q)
        if any(i.is_blocked for nd in Q.transitive_nodes for i in nd.all_individuals):
            self.hub.flags.add("some_blocked")
        self.dead = S if S else False
        if S:
            self.hub.flags.add("deadlocked")

    def on_end(self, Q, status, exc):
        self.validated = 1
        if Q is None:
            return
        if status == "ok" and self.cfg.get("judge") == "crash_only":
            self.hub.flags.add("ttd_checked")
            return
        if status == "ok":
            if not self.dead:
                blocked = [(nd.id_number, i.id_number, i.destination) for nd in Q.transitive_nodes for i in nd.all_individuals if i.is_blocked]
                self.violate("stopped_without_deadlock", {"clock": self.last_t, "blocked": blocked})
                return
            td = self.last_t
            ttd = Q.times_to_deadlock
            if set(ttd) != set(self.first_visit):
                self.violate("times_to_deadlock_keys_ne_visited_states", {"keys": [str(k) for k in ttd], "visited": [str(k) for k in self.first_visit]})
                return
            from fractions import Fraction

            def Fd(x):            # decimal reading: in exact mode the clock is a float at shift changes
                return Fraction(str(x))
            for s, t0 in self.first_visit.items():
                if Fd(ttd[s]) != Fd(td) - Fd(t0) or ttd[s] < 0:
                    self.violate("time_to_deadlock_wrong", {"state": str(s), "reported": ttd[s], "first_visit": t0, "deadlock_at": td})
                    return
            self.hub.flags.add("ttd_checked")
        elif status == "exception":
            self.violate("exception", {"type": exc[0], "message": exc[1][:200]})


class Spec(object):
    id = "C18"
    rule = ("every execution = one answer sequence with at most D deviations from the congesting default (unbounded "
            "arrival streams, event bound E) of one restricted network run with simulate_until_deadlock; the knot-free "
            "fix-point oracle is evaluated after every event; non-trivial = the execution reached a genuine deadlock and "
            "times_to_deadlock was compared; distinct = distinct observation digest")
    assumptions = [
        "deadlock = non-empty set of finite-server nodes all of whose servers hold customers blocked towards the set",
        "executions cut by the event bound E are judged only on 'never passed a deadlocked boundary'",
    ]

    def monitors(self, cfg):
        return [Monitor(cfg)]

    def nontrivial(self, cfg, res):
        return "ttd_checked" in res.flags

    def families(self, tier):
        return focused(tier)

    def explicit_families(self, tier):
        out = []

        def mk(name, nodes, classes, sc):
            out.append(cfg(name, "E", nodes, classes, K=None, D=INF, entry=["deadlock"], tracker="NaiveBlocking", detector="StateDigraph",
                           system_capacity=sc, features=["explicit", "deadlock"]))
        mk("E cycle2 c=(1,1) caps=(1,0) syscap=4", [node(c=1, cap=1), node(c=1, cap=0)],
           {"A": klass([ARR, None], [[1.0, 2.0], [1.0, 0.5]], route=matrix([[0.0, 1.0], [0.5, 0.0]]))}, 4)
        if tier != "quick":
            mk("E cycle2 c=(2,1) caps=(0,0) syscap=4", [node(c=2, cap=0), node(c=1, cap=0)],
               {"A": klass([ARR, None], [[1.0, 2.0], [1.0, 0.5]], route=matrix([[0.0, 1.0], [0.5, 0.0]]))}, 4)
            mk("E selfloop c=2 cap=0 syscap=3", [node(c=2, cap=0)], {"A": klass([ARR], [[1.0, 2.0]], route=matrix([[0.5]]))}, 3)
            mk("E cycle3 syscap=4", [node(c=1, cap=0), node(c=1, cap=0), node(c=1, cap=0)],
               {"A": klass([ARR, None, None], [[1.0, 2.0], [1.0, 0.5], [1.0]], route=matrix([[0.0, 1.0, 0.0], [0.0, 0.0, 1.0], [0.5, 0.0, 0.0]]))}, 4)
        return out


def focused(tier):
    E = 14 if tier == "quick" else 18
    D = 4 if tier == "quick" else 6
    out = []
    fam = "F-deadlock"

    def mk(name, nodes, classes, tracker="NaiveBlocking", **kw):
        out.append(cfg(name, fam, nodes, classes, K=None, D=D, entry=["deadlock"], max_events=E, tracker=tracker,
                       detector="StateDigraph", features=["deadlock"], **kw))
    for c in (1, 2):
        for cap in (0, 1):
            for p in (1.0, 0.5):
                mk("selfloop c=%d cap=%d p=%s" % (c, cap, p), [node(c=c, cap=cap)], {"A": klass([ARR], [[1.0, 2.0]], route=matrix([[p]]))})
    for c in ((1, 1), (2, 1), (1, 2)):
        for caps in ((0, 0), (1, 0)):
            for tr in ("NaiveBlocking", "MatrixBlocking"):
                if tr == "MatrixBlocking" and (c != (2, 1) or caps != (0, 0)) and tier == "quick":
                    continue
                mk("cycle2 c=%s caps=%s %s" % (c, caps, tr), [node(c=c[0], cap=caps[0]), node(c=c[1], cap=caps[1])],
                   {"A": klass([ARR, None], [[1.0, 2.0], [1.0, 0.5]], route=matrix([[0.0, 1.0], [1.0, 0.0]]))}, tracker=tr)
    mk("cycle2 two streams p=.5", [node(c=1, cap=0), node(c=1, cap=0)],
       {"A": klass([ARR, [1.0, 2.0]], [[1.0, 2.0], [1.0, 0.5]], route=matrix([[0.0, 0.5], [0.5, 0.0]]))})
    mk("cycle3", [node(c=1, cap=0), node(c=1, cap=0), node(c=1, cap=0)],
       {"A": klass([ARR, None, None], [[1.0, 2.0], [1.0, 0.5], [1.0]], route=matrix([[0.0, 1.0, 0.0], [0.0, 0.0, 1.0], [1.0, 0.0, 0.0]]))})
    mk("cycle2 with escape", [node(c=1, cap=0), node(c=1, cap=0), node(c=1)],
       {"A": klass([ARR, None, None], [[1.0, 2.0], [1.0, 0.5], [1.0]], route=matrix([[0.0, 0.5, 0.5], [1.0, 0.0, 0.0], [0.0, 0.0, 0.0]]))})
    mk("cycle2 two priority classes", [node(c=1, cap=1), node(c=1, cap=0)],
       {"A": klass([ARR, None], [[1.0, 2.0], [1.0, 0.5]], route=matrix([[0.0, 1.0], [1.0, 0.0]]), prio=1),
        "B": klass([[1.0, 2.0], None], [[1.0, 2.0], [1.0, 0.5]], route=matrix([[0.0, 1.0], [0.5, 0.0]]), prio=0)})
    # a blocking cycle that is NOT a deadlock (another server of the node still works) next to a genuine knot elsewhere
    z3 = [[0.0] * 3 for _ in range(3)]
    mk("non-knot cycle + self-blocking third node", [node(c=2, cap=0), node(c=1, cap=0), node(c=1, cap=0)],
       {"W": klass([{"values": [1.0], "budget": 1}, None, None], [[10.0], [1.0], [1.0]], route=matrix(z3)),
        "X": klass([{"values": [2.0, 1.5], "budget": 1}, None, None], [[1.0], [1.0], [1.0]], route=matrix([[0.0, 1.0, 0.0], [0.0] * 3, [0.0] * 3])),
        "Y": klass([None, {"values": [2.0, 1.5], "budget": 1}, None], [[1.0], [2.0, 1.0], [1.0]], route=matrix([[0.0] * 3, [1.0, 0.0, 0.0], [0.0] * 3])),
        "Z": klass([None, None, {"values": [5.0, 3.5, 0.5], "budget": 1}], [[1.0], [1.0], [1.0, 4.0]], route=matrix([[0.0] * 3, [0.0] * 3, [0.0, 0.0, 1.0]]))},
       max_exec=200000)
    out[-1]["max_events"] = 30
    out[-1]["D"] = INF
    # a deadlock that forms at clock 0.0 (arrival at t=0 with a zero service time)
    mk("deadlock at time zero", [node(c=1, cap=0), node(c=1, cap=0)],
       {"Z": klass([{"values": [0.0, 0.5], "budget": 1}, None], [[0.0, 1.0], [1.0]], route=matrix([[1.0, 0.0], [0.0, 0.0]])),
        "Y": klass([None, {"values": [1.0, 0.0], "budget": 2}], [[1.0], [1.0, 0.0]], route=matrix([[0.0, 0.0], [1.0, 0.0]]))})
    out[-1]["D"] = INF
    # several customers of one multi-server node blocked towards the same destination while it starts a new service
    for p2 in (1.0, 0.5):
        mk("cycle2 c=(3,1) caps=(0,1) p=%s" % p2, [node(c=3, cap=0), node(c=1, cap=1)],
           {"A": klass([[0.25, 0.5], None], [[1.0, 2.0], [2.0, 1.0]], route=matrix([[0.0, 1.0], [p2, 0.0]]))})
        out[-1]["max_events"] = E + 8
    # exact arithmetic: the same entry point, Decimal dates
    for c, caps in (((1, 1), (0, 0)), ((2, 1), (1, 0))):
        mk("cycle2 c=%s caps=%s exact=12" % (c, caps), [node(c=c[0], cap=caps[0]), node(c=c[1], cap=caps[1])],
           {"A": klass([ARR, None], [[1.0, 2.0], [1.0, 0.5]], route=matrix([[0.0, 1.0], [1.0, 0.0]]))}, exact=12)
    # (beyond the statement's integer servers) exact arithmetic + a 'reroute' schedule: tracker states are first visited AT a
    # shift change, where the exact-mode clock is a float.  Only crash-freedom of the entry point is judged here: with
    # schedules the detector and the fix-point oracle use different notions (capacity from the initial shift, edges of
    # dismissed servers), which the statement does not cover.
    mk("cycle2 with schedule [2,1] reroute exact=14 (crash-freedom only)",
       [node(c={"sched": {"numbers": [2, 1], "ends": [1.5, 3.0], "preempt": "reroute"}}, cap=1), node(c=1, cap=0)],
       {"A": klass([[0.25, 0.5], None], [[1.0, 2.0], [1.0, 0.5]], route=matrix([[0.0, 1.0], [1.0, 0.0]]))}, exact=14, judge="crash_only")
    out[-1]["max_events"] = E + 8
    # (beyond the statement's 'finite integer servers': a non-pre-emptive schedule with an overtime server in the cycle)
    mk("cycle2 with schedule [1,1] at node 1", [node(c={"sched": {"numbers": [1, 1], "ends": [2.0, 4.0], "preempt": False}}, cap=0), node(c=1, cap=0)],
       {"A": klass([ARR, None], [[3.0, 1.0], [1.0, 2.0]], route=matrix([[0.0, 1.0], [1.0, 0.0]]))})
    out[-1]["max_events"] = E + 8
    # scenario families: scripted arrival instants (no choice), service menus around a known critical timing
    BIGT = 1.0e9
    mk("scenario: three blocked towards one destination, destination starts a new service", [node(c=3, cap=0), node(c=1, cap=1)],
       {"Out": klass([None, {"script": [0.5, BIGT]}], [[1.0], [10.0, 8.0]], route=matrix([[0.0, 0.0], [0.0, 0.0]])),
        "Loop": klass([{"script": [2.0, 1.5, 1.5, 6.0, BIGT]}, {"script": [1.0, BIGT]}], [[1.0, 0.5], [6.0, 4.0]], route=matrix([[0.0, 1.0], [1.0, 0.0]]))})
    out[-1]["max_events"] = 40
    out[-1]["D"] = 3
    mk("scenario: overtime server in the cycle (schedule [1,1])", [node(c={"sched": {"numbers": [1, 1], "ends": [5.0, 1000.0], "preempt": False}}, cap=2), node(c=1, cap=0)],
       {"Out": klass([{"script": [1.0, BIGT]}, None], [[9.0, 7.0], [1.0]], route=matrix([[0.0, 0.0], [0.0, 0.0]])),
        "Loop": klass([{"script": [3.0, 7.5, BIGT]}, {"script": [2.0, BIGT]}], [[1.0, 0.5], [5.0, 4.0]], route=matrix([[0.0, 1.0], [1.0, 0.0]]))})
    out[-1]["max_events"] = 40
    out[-1]["D"] = 3
    # (beyond the statement too) two customers blocked towards a node whose overtime server is dismissed; one of them
    # stays blocked and later belongs to a genuine knot
    mk("scenario: overtime server dismissed while two are blocked towards its node", [node(c=2, cap=0),
        node(c={"sched": {"numbers": [1, 1], "ends": [5.0, 1000.0], "preempt": False}}, cap=1)],
       {"X": klass([None, {"script": [0.5, BIGT]}], [[1.0], [10.0, 8.0]], route=matrix([[0.0, 0.0], [0.0, 0.0]])),
        "B": klass([{"script": [1.0, 0.2, 9.8, BIGT]}, None], [[1.0, 0.5], [3.0, 2.0]], route=matrix([[0.0, 1.0], [1.0, 0.0]]))})
    out[-1]["max_events"] = 40
    out[-1]["D"] = 3
    # round 5: a place freed by a reneging customer must be offered to a customer blocked towards the node; a priority
    # pre-emption hands a server over while others are still blocked towards the node
    for caps in ((0, 1), (1, 1)):
        mk("cycle2 caps=%s reneging at node 2" % (caps,), [node(c=1, cap=caps[0]), node(c=1, cap=caps[1])],
           {"A": klass([ARR, [1.0, 2.0]], [[1.0, 2.0], [3.0, 1.0]], renege=[None, [0.5, 1.5]], route=matrix([[0.0, 1.0], [1.0, 0.0]]))})
        out[-1]["max_events"] = E + 4
        out[-1]["D"] = D - 1
    for pre in ("resume", "restart"):
        mk("cycle2 c=(2,1) caps=(0,1) pre-emptive priorities (%s) at node 2" % pre, [node(c=2, cap=0), node(c=1, cap=1, preempt=pre)],
           {"A": klass([[0.5, 1.0], None], [[1.0, 2.0], [2.0, 1.0]], route=matrix([[0.0, 1.0], [1.0, 0.0]]), prio=1),
            "B": klass([[0.75, 1.5], None], [[1.0, 2.0], [2.0, 1.0]], route=matrix([[0.0, 1.0], [0.5, 0.0]]), prio=0)})
        out[-1]["max_events"] = E + 6
    # scenario (round 5): two high-priority customers blocked towards a pre-emptive node; the first moves in during a
    # release chain and pre-empts the customer that has just started, the second stays blocked and later belongs to the knot
    mk("scenario: pre-emption during a release chain, second blocked customer in the later knot",
       [node(c=1, cap=1, preempt="resume"), node(c=2, cap=0), node(c=1, cap=0)],
       {"H": klass([None, {"script": [3.0, 2.0, BIGT]}, None], [[5.0, 4.0], [1.0], [1.0]], prio=0,
                   route=matrix([[0.0, 1.0, 0.0], [1.0, 0.0, 0.0], [0.0, 0.0, 1.0]])),
        "L": klass([{"script": [1.0, 1.0, BIGT]}, {"script": [12.0, BIGT]}, {"script": [200.0, BIGT]}], [[10.0, 8.0], [100.0, 50.0], [1.0]], prio=1,
                   route=matrix([[0.0, 0.0, 0.0], [1.0, 0.0, 0.0], [0.0, 0.0, 1.0]]))})
    out[-1]["max_events"] = 40
    out[-1]["D"] = 3
    # scenario (round 5): the only waiting customer of node 2 reneges while a customer is blocked towards node 2; the
    # blocked customer must take the freed place, the genuine deadlock forms later
    mk("scenario: waiting customer reneges while another is blocked towards its node",
       [node(c=1, cap=0), node(c=1, cap=1)],
       {"A": klass([None, {"script": [2.0, BIGT]}], [[1.0], [10.0, 8.0]], renege=[None, [4.0, 3.0]], route=matrix([[0.0, 1.0], [1.0, 0.0]])),
        "B": klass([{"script": [3.0, 20.0, BIGT]}, {"script": [1.0, BIGT]}], [[1.0, 0.5], [10.0, 12.0]], renege=[None, None], route=matrix([[0.0, 1.0], [1.0, 0.0]]))})
    out[-1]["max_events"] = 40
    out[-1]["D"] = 3
    mk("multi-server partial blockage", [node(c=2, cap=0), node(c=1, cap=0), node(c=1)],
       {"A": klass([[0.5, 0.25], None, None], [[1.0, 2.0], [2.0, 1.0], [1.0]], route=matrix([[0.0, 0.5, 0.5], [1.0, 0.0, 0.0], [0.0, 0.0, 0.0]]))})
    return out


SPEC = Spec()
