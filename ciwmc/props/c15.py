"""C15 Reproducibility: model checking over HISTORIES of API operations, on the real random generators."""
import os
import sys
import json
import time
import hashlib
import itertools
import subprocess
import multiprocessing as mp

ROOT = os.path.dirname(os.path.dirname(os.path.dirname(os.path.abspath(__file__))))
T = 6.0


def _ciw():
    target = os.environ.get("CIWMC_TARGET", "/repo")
    if target not in sys.path:
        sys.path.insert(0, target)
    import ciw
    assert os.path.realpath(ciw.__file__).startswith(os.path.realpath(target) + os.sep), ciw.__file__
    return ciw


# ------------------------------------------------------------------------------------------------
# configurations: every stateful ingredient of the library appears in one of them
# ------------------------------------------------------------------------------------------------
def build(name):
    ciw = _ciw()
    D = ciw.dists
    R = ciw.routing
    if name == "sequential":
        return ciw.create_network(
            arrival_distributions=[D.Sequential([0.4, 0.7, 0.3, 1.1])],
            service_distributions=[D.Sequential([0.9, 0.2, 0.6])],
            batching_distributions=[D.Sequential([1, 2, 1, 1])],
            number_of_servers=[1])
    if name == "cycle":
        return ciw.create_network(
            arrival_distributions=[D.Exponential(2.0), None, None],
            service_distributions=[D.Exponential(3.0), D.Exponential(3.0), D.Exponential(3.0)],
            number_of_servers=[1, 1, 1],
            routing=R.NetworkRouting(routers=[R.Cycle(cycle=[2, 3, -1, 2]), R.Direct(to=3), R.Probabilistic(destinations=[1], probs=[0.3])]))
    if name == "process":
        return ciw.create_network(
            arrival_distributions={"A": [D.Exponential(1.5), None, None], "B": [D.Exponential(1.0), None, None]},
            service_distributions={"A": [D.Exponential(3.0)] * 3, "B": [D.Uniform(0.1, 0.4)] * 3},
            number_of_servers=[1, 2, 1],
            routing={"A": R.ProcessBased(lambda ind, sim: [2, 3, 2]),
                     "B": R.FlexibleProcessBased(lambda ind, sim: [[2, 3], [1]], rule="all", choice="jsq")})
    if name == "schedules":
        return ciw.create_network(
            arrival_distributions={"A": [D.Exponential(2.0), None], "B": [D.Exponential(1.0), None]},
            service_distributions={"A": [D.Exponential(2.5), D.Deterministic(0.3)], "B": [D.Triangular(0.1, 0.2, 0.6), D.Deterministic(0.3)]},
            number_of_servers=[ciw.Schedule(numbers_of_servers=[1, 0, 2], shift_end_dates=[1.0, 1.5, 2.5], preemption="resume"),
                               ciw.Slotted(slots=[0.5, 1.0, 2.0], slot_sizes=[1, 2, 1])],
            priority_classes={"A": 1, "B": 0},
            routing={"A": [[0.0, 0.5], [0.0, 0.0]], "B": [[0.0, 0.5], [0.0, 0.0]]})
    if name == "reneging":
        return ciw.create_network(
            arrival_distributions={"A": [D.Exponential(3.0)], "B": [None]},
            service_distributions={"A": [D.Exponential(1.0)], "B": [D.Exponential(2.0)]},
            number_of_servers=[1],
            reneging_time_distributions={"A": [D.Sequential([0.2, 0.9, 0.5])], "B": [None]},
            class_change_time_distributions={"A": {"B": D.Sequential([0.3, 1.2, 0.7])}})
    if name == "intervals":
        return ciw.create_network(
            arrival_distributions=[D.PoissonIntervals(rates=[2.0, 0.5, 3.0], endpoints=[1.0, 2.0, 3.0], max_sample_date=12.0)],
            service_distributions=[D.Pmf(values=[0.2, 0.5, 0.9], probs=[0.3, 0.4, 0.3])],
            batching_distributions=[D.Pmf(values=[1, 2], probs=[0.7, 0.3])],
            number_of_servers=[2],
            baulking_functions=[lambda n, Q=None, next_ind=None, next_node=None: 0.0 if n < 2 else 0.5])
    if name == "continuous":
        return ciw.create_network(
            arrival_distributions=[D.Gamma(2.0, 0.3), D.Weibull(1.0, 1.5), D.Lognormal(0.1, 0.5)],
            service_distributions=[D.Normal(0.4, 0.2), D.Erlang(5.0, 2) + D.Uniform(0.0, 0.1),
                                   D.MixtureDistribution([D.HyperExponential([4.0, 8.0], [0.5, 0.5]), D.Coxian([5.0, 6.0], [0.4, 1.0])], [0.5, 0.5])],
            number_of_servers=[1, 2, float("inf")],
            routing=[[0.0, 0.3, 0.3], [0.2, 0.0, 0.0], [0.0, 0.0, 0.0]])
    if name == "empirical":
        return ciw.create_network(
            arrival_distributions=[D.Empirical([0.3, 0.5, 0.9]), D.Poisson(1.5)],
            service_distributions=[D.Geometric(0.6), D.Binomial(3, 0.3)],
            number_of_servers=[2, 1],
            routing=[[0.0, 0.5], [0.0, 0.0]],
            service_disciplines=[ciw.disciplines.SIRO, ciw.disciplines.LIFO])
    if name == "routers":
        return ciw.create_network(
            arrival_distributions=[D.Exponential(3.0), None, None, None],
            service_distributions=[D.Exponential(6.0), D.Exponential(2.0), D.Exponential(2.5), D.Exponential(4.0)],
            number_of_servers=[1, 1, 2, 1],
            queue_capacities=[float("inf"), 1, 2, float("inf")],
            routing=R.NetworkRouting(routers=[R.JoinShortestQueue(destinations=[2, 3], tie_break="random"),
                                              R.LoadBalancing(destinations=[3, 4], tie_break="order"),
                                              R.Probabilistic(destinations=[4, 1], probs=[0.4, 0.2]), R.Leave()]))
    if name == "slotted_preempt":
        return ciw.create_network(
            arrival_distributions={"A": [D.Exponential(2.5)], "B": [D.Exponential(1.0)]},
            service_distributions={"A": [D.Uniform(0.2, 1.4)], "B": [D.Uniform(0.1, 0.9)]},
            number_of_servers=[ciw.Slotted(slots=[0.5, 1.0, 1.5], slot_sizes=[2, 1, 2], capacitated=True, preemption="resume", offset=0.25)],
            priority_classes={"A": 1, "B": 0},
            class_change_matrices=[{"A": {"A": 0.7, "B": 0.3}, "B": {"A": 0.0, "B": 1.0}}],
            routing={"A": [[0.3]], "B": [[0.1]]})
    if name == "preempt_sched":
        return ciw.create_network(
            arrival_distributions={"A": [D.Exponential(2.0), None], "B": [D.Exponential(1.0), None]},
            service_distributions={"A": [D.Exponential(1.5), D.Exponential(3.0)], "B": [D.Exponential(3.0), D.Exponential(3.0)]},
            number_of_servers=[ciw.Schedule(numbers_of_servers=[2, 1], shift_end_dates=[1.2, 2.0], preemption="restart", offset=0.3), 1],
            priority_classes=({"A": 1, "B": 0}, ["resample", False]),
            routing={"A": R.TransitionMatrix([[0.0, 0.7], [0.0, 0.0]]), "B": R.TransitionMatrix([[0.0, 0.4], [0.2, 0.0]])},
            server_priority_functions=[lambda srv, ind: -srv.id_number, None],
            system_capacity=6)
    if name == "from_dict":
        global _PARAMS
        if _PARAMS is None:
            _PARAMS = {
                "arrival_distributions": {"A": [D.Exponential(2.0)], "B": [D.Exponential(1.0)]},
                "service_distributions": {"A": [D.Exponential(1.5)], "B": [D.Exponential(4.0)]},
                "number_of_servers": [1],
                "priority_classes": ({"A": 1, "B": 0}, ["resume"]),
                "routing": {"A": [[0.3]], "B": [[0.0]]},
            }
        return ciw.create_network_from_dictionary(_PARAMS)      # the SAME dictionary every time
    if name == "baulking":
        return ciw.create_network(
            arrival_distributions=[D.Exponential(4.0)],
            service_distributions=[D.Exponential(1.5)],
            number_of_servers=[1],
            baulking_functions=[lambda n, Q=None, next_ind=None, next_node=None: n / (n + 1.0)])
    if name in ("exact_customers", "exact_low"):
        return ciw.create_network(
            arrival_distributions=[D.Exponential(3.0)],
            service_distributions=[D.Exponential(4.0)],
            number_of_servers=[1])
    raise ValueError(name)


_PARAMS = None
EXACT = {"exact_customers": 10, "exact_low": 4}      # exact-mode configurations (decimal context is process-global)
BY_CUSTOMERS = {"exact_customers": 25}               # run with simulate_until_max_customers(n)

CONFIGS = ["sequential", "cycle", "process", "schedules", "reneging", "intervals", "continuous", "empirical", "exact_customers", "exact_low", "from_dict", "routers", "slotted_preempt", "preempt_sched", "baulking"]
DETERMINISTIC = ["det-cycle", "det-sequential", "det-schedule"]


def build_det(name):
    ciw = _ciw()
    D = ciw.dists
    R = ciw.routing
    if name == "det-cycle":
        return ciw.create_network(
            arrival_distributions=[D.Deterministic(0.71), None, None],
            service_distributions=[D.Deterministic(0.23), D.Deterministic(0.53), D.Deterministic(0.31)],
            number_of_servers=[1, 1, 1],
            routing=R.NetworkRouting(routers=[R.Cycle(cycle=[2, 3, -1]), R.Leave(), R.Direct(to=2)]))
    if name == "det-sequential":
        return ciw.create_network(
            arrival_distributions=[D.Sequential([0.41, 0.73, 0.29, 1.13])],
            service_distributions=[D.Sequential([0.97, 0.19, 0.61])],
            number_of_servers=[1],
            reneging_time_distributions=[D.Sequential([0.53, 0.257, 0.751])])
    if name == "det-schedule":
        return ciw.create_network(
            arrival_distributions=[D.Deterministic(0.47)],
            service_distributions=[D.Deterministic(0.83)],
            number_of_servers=[ciw.Schedule(numbers_of_servers=[1, 0, 2], shift_end_dates=[1.0, 1.5, 2.5], preemption="resume")])
    raise ValueError(name)


def _norm(x):
    if isinstance(x, float) and x != x:
        return "nan"
    return x


def digest(Q):
    recs = sorted((tuple(_norm(v) if not hasattr(v, "as_tuple") else str(v) for v in r) for r in Q.get_all_records()), key=repr)
    hist = [(t, s) for t, s in Q.statetracker.history]
    blob = repr((recs, Q.current_time, hist))
    return hashlib.sha1(blob.encode()).hexdigest()[:16]


def new_sim(N, cfg=None):
    ciw = _ciw()
    if cfg in EXACT:
        return ciw.Simulation(N, tracker=ciw.trackers.NodePopulation(), exact=EXACT[cfg])
    return ciw.Simulation(N, tracker=ciw.trackers.NodePopulation())


def run_sim(Q, cfg, fraction=1.0):
    if cfg in BY_CUSTOMERS and fraction == 1.0:
        Q.simulate_until_max_customers(BY_CUSTOMERS[cfg])
    else:
        Q.simulate_until_max_time(T * fraction)


def snapshot(obj, depth=0, seen=None):
    """deep structural snapshot of a Network object graph (values of every attribute, recursively)"""
    if seen is None:
        seen = {}
    if id(obj) in seen:
        return ("ref", seen[id(obj)])
    if isinstance(obj, (int, float, str, bool, type(None))):
        return _norm(obj)
    if depth > 12:
        return "..."
    seen[id(obj)] = len(seen)
    if isinstance(obj, (list, tuple)):
        return [snapshot(x, depth + 1, seen) for x in obj]
    if isinstance(obj, dict):
        return {repr(k): snapshot(v, depth + 1, seen) for k, v in obj.items()}
    name = type(obj).__name__
    if name in ("generator", "cycle", "function", "method", "builtin_function_or_method", "module", "type", "Generator"):
        return name
    if name == "Simulation" or name.endswith("Node") and hasattr(obj, "simulation"):
        return name       # back references installed by Simulation.__init__ (router.simulation, dist.simulation)
    d = getattr(obj, "__dict__", None)
    if d is None:
        return repr(obj)[:60]
    return (name, {k: snapshot(v, depth + 1, seen) for k, v in sorted(d.items()) if k not in ("simulation", "node")})


# ------------------------------------------------------------------------------------------------
def reference(cfg, seed):
    """digest of the probe in a FRESH interpreter"""
    code = ("import sys; sys.path.insert(0, %r); from ciwmc.props import c15; ciw = c15._ciw(); ciw.seed(%d); "
            "Q = c15.new_sim(c15.build(%r), %r); c15.run_sim(Q, %r); print(c15.digest(Q))") % (ROOT, seed, cfg, cfg, cfg)
    env = dict(os.environ, PYTHONDONTWRITEBYTECODE="1")
    r = subprocess.run([sys.executable, "-c", code], capture_output=True, text=True, env=env)
    if r.returncode != 0:
        raise RuntimeError("reference run failed: " + r.stderr[-400:])
    return r.stdout.strip().splitlines()[-1]


def run_history(args):
    try:
        return _run_history(args)
    except Exception as e:
        import traceback
        tb = traceback.format_exc().strip().splitlines()
        return [("simulation_crashed", {"config": args[0], "history": list(args[2]), "mode": args[4],
                                        "error": "%s: %s" % (type(e).__name__, str(e)[:100]), "where": tb[-3].strip()[:120]})], 1, "crash"


def _run_history(args):
    """ops: tuple of operation names; then the probe.  Returns (violations, n_sims, digests)"""
    cfg, other, ops, seed, mode, ref = args
    ciw = _ciw()
    shared = {}
    live = []
    uses = {}
    nsims = 0
    out = []
    # a history starts from a FIXED generator state (not from whatever the previous history of this worker left):
    # every history is reproducible on its own, replays included
    ciw.seed(1000 + seed)

    def net(c, how):
        if how == "fresh":
            return build(c)
        if c not in shared:
            shared[c] = build(c)
        return shared[c]
    for op in ops:
        kind, _, arg = op.partition(":")
        if kind == "seed":
            ciw.seed(int(arg))
        elif kind in ("run_fresh", "run_shared", "leave_live"):
            c = cfg if arg == "same" else other
            N = net(c, "fresh" if kind == "run_fresh" else "shared")
            Q = new_sim(N, c)
            nsims += 1
            uses[id(N)] = uses.get(id(N), 0) + 1
            run_sim(Q, c, 0.5 if kind == "leave_live" else 1.0)
            if kind == "leave_live":
                live.append((Q, id(N), uses[id(N)]))
        elif kind == "step_live":
            for Q, nid, born in live:
                try:
                    Q.simulate_until_max_time(T * 0.75)
                except Exception as e:
                    # a live simulation whose Network has meanwhile been used for another Simulation
                    out.append(("interleaved_simulations_on_one_network_crash",
                                {"config": cfg, "history": list(ops), "error": "%s: %s" % (type(e).__name__, str(e)[:100]),
                                 "network_shared_by_several_simulations": uses[nid] >= 2}))
    ciw.seed(seed)
    N = net(cfg, mode)
    Q = new_sim(N, cfg)
    nsims += 1
    run_sim(Q, cfg)
    d = digest(Q)
    if d != ref:
        out.append(("probe_differs_from_fresh_interpreter", {"config": cfg, "mode": mode, "seed": seed, "history": list(ops),
                                                             "network_used_before": any(o.startswith(("run_shared", "leave_live")) and o.endswith("same") for o in ops) and mode == "shared",
                                                             "digest": d, "reference": ref}))
    return out, nsims, d


def interleavings(args):
    """two live simulations on ONE Network of a deterministic configuration, every interleaving of their steps"""
    name, order = args[0], args[1]
    separate = len(args) > 2 and args[2] == "separate"
    cuts = [T / 3, 2 * T / 3, T]
    solo = new_sim(build_det(name))
    for c in cuts:
        solo.simulate_until_max_time(c)
    ref = digest(solo)
    stamps = [t for t, _ in solo.statetracker.history]
    if len(set(stamps)) != len(stamps):
        # simultaneous events are resolved with the process-wide generator: not a statement about shared objects
        raise RuntimeError("deterministic configuration %s is not tie-free: %r" % (name, stamps))
    N = build_det(name)
    # "separate": each simulation has its OWN freshly built Network (nothing may be shared then)
    sims = [new_sim(N), new_sim(build_det(name) if separate else N)]
    pos = [0, 0]
    out = []
    try:
        for who in order:
            sims[who].simulate_until_max_time(cuts[pos[who]])
            pos[who] += 1
    except Exception as e:
        out.append(("interleaved_simulations_on_%s_crash" % ("separate_networks" if separate else "one_network"),
                    {"config": name, "order": list(order), "error": "%s: %s" % (type(e).__name__, str(e)[:120])}))
        return out, 3, ref
    for k, Q in enumerate(sims):
        d = digest(Q)
        if d != ref:
            out.append(("interleaved_simulations_on_%s_differ_from_solo_run" % ("separate_networks" if separate else "one_network"),
                        {"config": name, "order": list(order), "simulation": k, "digest": d, "reference": ref}))
    return out, 3, ref


OPS = ["seed:0", "seed:1", "run_fresh:same", "run_shared:same", "leave_live:same", "run_fresh:other", "run_shared:other", "step_live:"]


class Spec(object):
    id = "C15"
    rule = ("every history = a sequence of at most d API operations (seed, run a simulation on a fresh / on the shared "
            "Network of the same or of another configuration, leave a simulation live, step live simulations) followed by "
            "the probe seed(s); build; run; digest, for 8 configurations covering every stateful ingredient, 2 seeds, "
            "fresh and re-used Network; deterministic configurations: all interleavings of two live simulations on one "
            "Network; non-trivial = history with at least one earlier simulation; distinct = distinct history")
    assumptions = [
        "real generators (random, numpy) - this is the one property about seeds; reference digests come from fresh interpreters",
        "digest = sorted records + final clock + NodePopulation history",
    ]

    def custom_main(self, tier, seed, replay):
        from .. import evidence, explore
        t0 = time.time()
        depth = 3 if tier == "quick" else 4
        findings = explore.load_findings()
        if replay:
            body = json.load(open(replay))
            if body["kind"] == "history":
                v, _, _ = run_history(tuple(body["args"]))
            else:
                v, _, _ = interleavings(tuple(body["args"]))
            for clause, detail in v:
                print("REPLAY: violation reproduced property=C15 clause=%s detail=%s" % (clause, json.dumps(detail)[:300]))
            return 1 if v else 0
        nw = explore.NWORKERS
        ctx = mp.get_context("fork")
        with ctx.Pool(nw) as pool:
            refs = dict(zip([(c, s) for c in CONFIGS for s in (0, 1)],
                            pool.starmap(reference, [(c, s) for c in CONFIGS for s in (0, 1)])))
            tasks = []
            for ci, c in enumerate(CONFIGS):
                other = CONFIGS[(ci + 1) % len(CONFIGS)]
                for d in range(0, depth + 1):
                    for ops in itertools.product(OPS, repeat=d):
                        if any(o == "step_live:" for o in ops) and not any(o.startswith("leave_live") for o in ops):
                            continue
                        for s in (0, 1):
                            for mode in ("fresh", "shared"):
                                if c == "intervals" and mode == "shared":
                                    continue   # PoissonIntervals pre-samples its dates when the Network is BUILT (documented design)
                                tasks.append((c, other, ops, s, mode, refs[(c, s)]))
            res = pool.map(run_history, tasks, chunksize=16)
            itasks = [(n, order) for n in DETERMINISTIC for order in set(itertools.permutations([0, 0, 0, 1, 1, 1]))]
            itasks += [(n, order, "separate") for n in DETERMINISTIC for order in set(itertools.permutations([0, 0, 0, 1, 1, 1]))]
            ires = pool.map(interleavings, itasks, chunksize=4)
        viol, known = [], {}
        nsims = 0
        digests = set()
        for task, (v, n, d) in list(zip(tasks, res)) + list(zip(itasks, ires)):
            nsims += n
            digests.add(d)
            for clause, detail in v:
                vr = {"v": {"clause": clause, "detail": detail}}
                f = explore.match_finding(findings, "C15", vr, {})
                if f is not None:
                    k = known.setdefault(f["id"], {"n": 0, "what": f["what"]})
                    k["n"] += 1
                else:
                    viol.append((task, clause, detail))
        for fid, k in sorted(known.items()):
            print("KNOWN-FINDING: property=C15 %s (%d histories)" % (k["what"], k["n"]))
        printed = 0
        seen = set()
        for task, clause, detail in sorted(viol, key=lambda x: (x[1], len(x[0][2]) if len(x[0]) == 6 else 0, repr(x[0]))):
            key = (clause, detail.get("config"), detail.get("mode"))
            if key in seen:
                continue
            seen.add(key)
            os.makedirs(os.path.join(evidence.OUT, "replays", "C15"), exist_ok=True)
            body = {"property": "C15", "clause": clause, "detail": detail, "kind": "history" if len(task) == 6 else "interleaving", "args": list(task)}
            dg = hashlib.sha1(json.dumps(body, sort_keys=True, default=str).encode()).hexdigest()[:12]
            path = os.path.join(evidence.OUT, "replays", "C15", "%s_%s.json" % (clause, dg))
            json.dump(body, open(path, "w"), indent=1, default=str)
            print("VIOLATION property=C15 replay=%s" % path)
            print("  clause=%s detail=%s" % (clause, json.dumps(detail, default=str)[:300]))
            printed += 1
        nontrivial = sum(1 for t in tasks if any(o.startswith(("run_", "leave_")) for o in t[2])) + len(itasks)
        cov = {
            "states": len(digests), "transitions": nsims, "traces_validated_against_impl": len(tasks) + len(itasks),
            "evaluations": len(tasks) + len(itasks), "distinct_nontrivial": nontrivial, "rule": self.rule,
            "samples": [{"config": t[0], "history": list(t[2]), "probe_seed": t[3], "network": t[4]} for t in tasks[5:400:97]]
            + [{"config": t[0], "interleaving": list(t[1])} for t in itasks[:2]],
            "exhaustive": True, "history_depth": depth, "configurations": CONFIGS + DETERMINISTIC, "operation_alphabet": OPS,
            "reference_digests_from_fresh_interpreters": len(refs), "simulations_run": nsims,
            "known_findings_hit": {k: v["n"] for k, v in known.items()}, "workers": nw,
        }
        evidence.write_evidence(self, tier, seed, cov, list(self.assumptions), time.time() - t0, printed)
        print("C15 %s: %d histories (depth<=%d) + %d interleavings, %d simulations, %d distinct digests, %.1fs" % (
            tier, len(tasks), depth, len(itasks), nsims, len(digests), time.time() - t0))
        return 1 if printed else 0


SPEC = Spec()
