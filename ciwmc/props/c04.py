"""C04 Server exclusivity and utilisation."""
from math import isinf

from ..families import *
from .. import oracles
from ..history import History, markers


def finite_nodes(Q, cfg):
    for nd, nc in zip(Q.transitive_nodes, cfg["nodes"]):
        if oracles.node_kind(nc) in ("fixed", "sched"):
            yield nd, nc


def has_preemption(cfg):
    for n in cfg["nodes"]:
        if n.get("preempt"):
            return True
        c = n.get("c")
        if isinstance(c, dict):
            s = c.get("sched") or c.get("slotted")
            if s.get("preempt"):
                return True
    return False


class Monitor(object):
    prop = "C04"

    def __init__(self, cfg):
        self.cfg = cfg
        self.validated = 0
        self.prev_held = {}        # node id -> {cust id: server id}
        self.n_interrupted = {}    # cust id -> number of interrupted-service records
        self.intervals = {}        # (node, server id) -> [(start, end, cust)]
        self.attach_log = {}       # node id -> {server id: [start_date, [attach intervals], open_attach, end]}
        self.preempt = has_preemption(cfg)
        self.tt = {}
        for i, nc in enumerate(cfg["nodes"]):
            if oracles.node_kind(nc) == "sched":
                self.tt[i + 1] = oracles.timetable_of(nc)

    def violate(self, clause, detail):
        detail["history"] = markers(self.hub)
        self.hub.violate("C04", clause, detail)

    # ---- seam log for the utilisation oracle ----------------------------------------------------
    def _srv(self, node, server):
        d = self.attach_log.setdefault(node.id_number, {})
        if server.id_number not in d:
            d[server.id_number] = {"start": server.start_date, "busy": [], "open": None, "end": None}
        return d[server.id_number]

    def on_attach(self, node, server, ind):
        e = self._srv(node, server)
        if e["open"] is not None:
            self.violate("server_attached_twice", {"node": node.id_number, "server": server.id_number,
                                                               "holding": e["open"][1], "new": ind.id_number})
        e["open"] = (self.hub.Q.current_time, ind.id_number)
        self.hub.flags.add("attached")

    def on_detach(self, server):
        node = server.node
        e = self._srv(node, server)
        if e["open"] is not None:
            e["busy"].append((e["open"][0], self.hub.Q.current_time))
            e["open"] = None

    def on_init(self, Q):
        for nd, nc in finite_nodes(Q, self.cfg):
            for s in nd.servers:
                self._srv(nd, s)
        self.check(Q)

    def on_boundary(self, Q):
        self.check(Q)
        for ind, r in self.hub.new_records():
            if r.record_type == "interrupted service":
                self.n_interrupted[r.id_number] = self.n_interrupted.get(r.id_number, 0) + 1
            if r.record_type in ("service", "interrupted service") and r.server_id is not False and r.server_id == r.server_id:
                key = (r.node, r.server_id)
                a, b = r.service_start_date, r.exit_date
                if a is False or a != a:
                    continue
                for (a2, b2, c2) in self.intervals.get(key, ()):
                    if c2 != r.id_number and max(a, a2) < min(b, b2):
                        self.violate("server_intervals_overlap", {"node": r.node, "server": r.server_id,
                                                                            "a": [a, b, r.id_number], "b": [a2, b2, c2]})
                self.intervals.setdefault(key, []).append((a, b, r.id_number))

    def check(self, Q):
        hub = self.hub
        now = Q.current_time
        for nd, nc in finite_nodes(Q, self.cfg):
            nid = nd.id_number
            present = {ind.id_number: ind for ind in nd.all_individuals}
            held = {}
            for s in nd.servers:
                self._srv(nd, s)
                if bool(s.busy) != bool(s.cust):
                    self.violate("busy_flag_ne_has_customer", {"node": nid, "server": s.id_number, "busy": s.busy,
                                                                     "cust": s.cust.id_number if s.cust else None})
                if s.cust:
                    cid = s.cust.id_number
                    if cid not in present or present[cid] is not s.cust:
                        self.violate("server_holds_absent_customer", {"node": nid, "server": s.id_number, "cust": cid})
                    if s.cust.server is not s:
                        self.violate("customer_does_not_point_back", {"node": nid, "server": s.id_number, "cust": cid})
                    if cid in held:
                        self.violate("two_servers_one_customer", {"node": nid, "cust": cid, "servers": [held[cid], s.id_number]})
                    held[cid] = s.id_number
            # customer side: a customer that is not interrupted is either waiting (server False) or held by a rostered server
            for cid, ind in present.items():
                if ind.interrupted:
                    continue
                if ind.server and cid not in held:
                    self.violate("customer_attached_to_unrostered_server",
                                {"node": nid, "cust": cid, "server": getattr(ind.server, "id_number", ind.server),
                                 "rostered": [s.id_number for s in nd.servers]})
            # number on duty
            onduty = sum(1 for s in nd.servers if not s.offduty)
            if oracles.node_kind(nc) == "fixed":
                expect = nc["c"]
            else:
                tt = self.tt[nid]
                expect = None
                if not (tt.is_boundary(now) and nd.next_shift_change == now):
                    expect = tt.servers_at(now)
            if expect is not None and onduty != expect:
                self.violate("servers_on_duty_ne_c", {"node": nid, "on_duty": onduty, "expected": expect, "now": now})
            in_service_on_duty = sum(1 for s in nd.servers if s.cust and not s.offduty)
            if expect is not None and in_service_on_duty > expect:
                self.violate("more_than_c_in_service", {"node": nid, "in_service": in_service_on_duty, "c": expect})
            # a server stays with its customer until the customer leaves (or an interruption is recorded)
            prev = self.prev_held.get(nid, {})
            for cid, sid in prev.items():
                if cid in present and held.get(cid) != sid:
                    ind = present[cid]
                    # a new record means the customer left this visit (possibly re-entering the same node in
                    # the same event, e.g. a self-transition) or its service was interrupted
                    n_int = len(ind.data_records)
                    if n_int <= self.n_interrupted.get(("seen", cid), 0):
                        self.violate("server_left_customer_before_departure",
                                    {"node": nid, "cust": cid, "server_before": sid, "server_now": held.get(cid)})
            for cid, ind in present.items():
                self.n_interrupted[("seen", cid)] = len(ind.data_records)
            self.prev_held[nid] = held
            # servers that disappeared from the roster were killed during this event
            log = self.attach_log.get(nid, {})
            ids = set(s.id_number for s in nd.servers)
            for sid, e in log.items():
                if sid not in ids and e["end"] is None:
                    e["end"] = now

    def on_end(self, Q, status, exc):
        self.validated = 1
        if status != "ok" or Q is None or self.preempt or self.hub.entry[0] != "max_time":
            return
        T = self.hub.entry[1]
        for nd, nc in finite_nodes(Q, self.cfg):
            log = self.attach_log.get(nd.id_number, {})
            busy = 0
            total = 0
            for sid, e in log.items():
                end = e["end"] if e["end"] is not None else T
                total += float(end) - float(e["start"])
                for a, b in e["busy"]:
                    busy += float(b) - float(a)
                if e["open"] is not None:
                    busy += T - float(e["open"][0])
            u = getattr(nd, "server_utilisation", "missing")
            if nd.c == 0 and not log:
                expect = None
            elif total > 0:
                expect = busy / total
            else:
                expect = None
            if expect is None:
                if u is not None and not (isinstance(u, (int, float)) and 0 <= u <= 1):
                    self.violate("utilisation_wrong", {"node": nd.id_number, "reported": u, "expected": None})
                continue
            if nd.c == 0 and u is None:
                continue   # documented: utilisation undefined while zero servers are on duty at the end
            self.hub.flags.add("utilisation_checked")
            if u is None or u == "missing" or abs(float(u) - float(expect)) > 1e-9 or not (-1e-12 <= float(u) <= 1 + 1e-12):
                self.violate("utilisation_wrong", {"node": nd.id_number, "reported": u, "expected": float(expect),
                                                               "busy": float(busy), "total": float(total)})


class Spec(object):
    id = "C04"
    rule = ("every execution = one complete answer sequence of one configuration of the server families; non-trivial = "
            "a service started (attach seam fired) and the utilisation oracle or the bijection was evaluated on a state "
            "with a busy server; distinct = distinct observation digest")
    assumptions = [
        "in-service relation read from the server side ({s.cust}); a customer interrupted by a pre-emptive shift end may "
        "keep a stale reference to its dismissed server",
        "utilisation compared (1e-9) with attach/detach seam log only in families without pre-emption and for "
        "simulate_until_max_time; zero servers on duty at the end => None accepted",
        "servers on duty compared with the modular-arithmetic timetable except at an instant with a pending shift change",
    ]

    def monitors(self, cfg):
        return [History(), Monitor(cfg)]

    def nontrivial(self, cfg, res):
        return "attached" in res.flags

    def families(self, tier):
        from .. import universal
        return focused(tier) + universal.family(tier)

    def explicit_families(self, tier):
        return explicit_basic(tier)


def focused(tier):
    K = 3 if tier == "quick" else 4
    out = []
    fam = "F-servers"
    for c in (1, 2, 3):
        out.append(single("c=%d" % c, fam, c=c, K=K, features=["servers"]))
    out.append(single("c=2 srvprio", fam, c=2, K=K, nodekw={"server_priority": "last"}, features=["servers", "srvprio"]))
    for nums, ends in (([2, 0, 1], [1.5, 2.5, 4.0]), ([1, 2], [2.0, 3.0])):
        for off in (0.0, 0.5):
            out.append(single("sched %s off=%s" % (nums, off), fam, K=K, T=10.0,
                              c={"sched": {"numbers": nums, "ends": ends, "preempt": False, "offset": off}}, features=["schedule"]))
    for opt in ("resume", "restart", "resample", "reroute"):
        out.append(single("sched-preempt %s" % opt, fam, K=K, T=10.0,
                          c={"sched": {"numbers": [2, 0, 1], "ends": [1.5, 2.5, 4.0], "preempt": opt}}, features=["schedule", "preempt_sched"]))
    for c in ((1, 1), (2, 1), (2, 2)):
        out.append(tandem("tandem block c=%s" % (c,), fam, c=c, caps=(None, 0), K=K, features=["blocking"]))
    out.append(tandem("sched upstream block", fam, c=({"sched": {"numbers": [1, 0], "ends": [2.0, 3.0], "preempt": False}}, 1),
                      caps=(None, 0), K=K, T=10.0, features=["schedule", "blocking"]))
    for opt in (False, "resume", "restart", "resample", "reroute"):
        out.append(two_class_single("prio %s c=2" % opt, fam, c=2, K=2, preempt=opt, prios=(1, 0), features=["priorities"]))
        out.append(two_class_single("prio %s c=1" % opt, fam, c=1, K=2, preempt=opt, prios=(1, 0), features=["priorities"]))
    out.append(single("renege c=2", fam, c=2, K=K, classkw={"renege": [PAT]}, features=["reneging"]))
    # pre-emptive schedule upstream of a full node: blocked customers are interrupted, released while off duty, restarted
    for opt in ("resume", "restart", "resample"):
        for nums, ends in (([1, 0], [2.0, 3.0]), ([1, 0, 1], [2.0, 5.0, 6.0])):
            out.append(tandem("sched %s %s + block" % (opt, nums), fam, c=({"sched": {"numbers": nums, "ends": ends, "preempt": opt}}, 1),
                              caps=(None, 0), K=K, T=12.0, features=["schedule", "blocking", "preempt_sched"]))
    out += sched_preempt_two_upstream(tier)
    out += mixed_tandem(tier)
    return out


SPEC = Spec()
