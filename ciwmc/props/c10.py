"""C10 Sampled inputs honoured."""
from math import isinf

from ..families import *
from .. import oracles
from ..history import History, markers


def valid_time(v):
    return isinstance(v, (int, float)) and not isinstance(v, bool) and v == v and v >= 0


def valid_batch(v):
    return isinstance(v, int) and not isinstance(v, bool) and v >= 0


class Monitor(object):
    prop = "C10"

    def __init__(self, cfg):
        self.cfg = cfg
        self.validated = 0
        self.kinds = {i + 1: oracles.node_kind(n) for i, n in enumerate(cfg["nodes"])}
        self.arr_samples = {}     # (node, class) -> [values]
        self.arr_events = {}      # (node, class) -> [instants]
        self.srv_samples = []     # (node, id, t, value)
        self.pending_batch = None
        self.cur_arrival = None
        self.A = 0
        self.invalid = None       # (kind, value, event index) of an invalid answer given to ciw
        self.has_batch = any("batch" in c for c in cfg["classes"].values())

    def violate(self, clause, detail):
        detail["exact_mode"] = bool(self.cfg.get("exact"))
        self.hub.violate("C10", clause, detail)

    def on_sample(self, menu, t, ind, v):
        k = menu.kind
        if k == "arr":
            self.arr_samples.setdefault((menu.node, menu.cls), []).append(v)
            if not valid_time(v) and self.invalid is None:
                self.invalid = ("inter-arrival", v, self.hub.nevents)
        elif k == "bat":
            self.pending_batch = v
            if not valid_batch(v) and self.invalid is None:
                self.invalid = ("batch", v, self.hub.nevents)
        elif k == "srv":
            self.srv_samples.append((menu.node, ind.id_number if ind is not None else None, t, v))
            if not valid_time(v) and self.invalid is None:
                self.invalid = ("service", v, self.hub.nevents)

    def on_pre_event(self, node, et):
        if et == "arrival":
            self.cur_arrival = (self.hub.Q.current_time, node.next_node, node.next_class)
            self.pending_batch = None

    def on_boundary(self, Q):
        now = Q.current_time
        if self.invalid is not None and self.invalid[0] != "reported":
            self.violate("invalid_sample_accepted", {"kind": self.invalid[0], "value": repr(self.invalid[1]),
                                                     "given_during_event": self.invalid[2], "now": now})
            self.invalid = ("reported", None, None)
        A = Q.nodes[0].number_of_individuals
        if self.cur_arrival is not None:
            t, nd, cl = self.cur_arrival
            self.cur_arrival = None
            self.arr_events.setdefault((nd, cl), []).append(t)
            created = A - self.A
            expect = self.pending_batch if self.has_batch and self.pending_batch is not None else 1
            if valid_batch(expect) and created != expect:
                self.violate("batch_size_not_honoured", {"node": nd, "class": cl, "sampled": expect, "created": created, "t": t})
            if valid_batch(expect) and expect != 1:
                self.hub.flags.add("batch_ne_1")
            # the stream's dates are the partial sums of ITS samples
            s = self.arr_samples.get((nd, cl), [])
            ev = self.arr_events[(nd, cl)]
            j = len(ev) - 1
            if j < len(s) and all(valid_time(x) for x in s[:j + 1]):
                d = s[0]
                for x in s[1:j + 1]:
                    d = d + x
                if d != t:
                    self.violate("arrival_not_at_partial_sum", {"node": nd, "class": cl, "arrival_number": j, "instant": t,
                                                                "partial_sum": d, "samples": s[:j + 1]})
            if len(s) < len(ev) and all(valid_time(x) for x in s):
                # (how far ahead the stream samples is an implementation choice; fewer samples than arrivals is not)
                self.violate("more_arrivals_than_inter_arrival_samples", {"node": nd, "class": cl, "samples": len(s), "arrivals": len(ev)})
        self.A = A
        for ind, r in self.hub.new_records():
            interrupted_visit = any(x.record_type == "interrupted service" and x.node == r.node and x.arrival_date == r.arrival_date
                                    for x in ind.data_records)
            if r.record_type == "service" and self.kinds.get(r.node) in ("fixed", "sched", "inf", "slotted") and not interrupted_visit:
                m = [x for x in self.srv_samples if x[0] == r.node and x[1] == r.id_number and x[2] == r.service_start_date]
                if len(m) != 1:
                    self.violate("service_samples_for_one_start_ne_1", {"id": r.id_number, "node": r.node, "start": r.service_start_date,
                                                                         "samples": [list(x) for x in self.srv_samples if x[1] == r.id_number and x[0] == r.node]})
                elif valid_time(m[0][3]):
                    self.hub.flags.add("service_checked")
                    # (floats: the engine computes end = start + sample; the DIFFERENCE end - start may be off by an ulp
                    #  when the start is not a binary fraction, e.g. downstream of a PS node)
                    st, en, sm = float(r.service_start_date), float(r.service_end_date), float(m[0][3])
                    tol = 1e-9 * max(1.0, abs(en))
                    if abs(en - st - sm) > tol or abs(float(r.service_time) - sm) > tol:
                        self.violate("service_duration_ne_sample", {"id": r.id_number, "node": r.node, "sample": m[0][3],
                                                                    "start": r.service_start_date, "end": r.service_end_date, "service_time": r.service_time})

    def on_end(self, Q, status, exc):
        self.validated = 1
        if self.invalid is not None and self.invalid[0] != "reported":
            if status == "exception":
                self.hub.flags.add("invalid_rejected")
            elif status == "ok":
                self.violate("invalid_sample_accepted", {"kind": self.invalid[0], "value": repr(self.invalid[1]),
                                                         "given_during_event": self.invalid[2], "now": "end of run"})
        if status != "ok" or Q is None or self.invalid is not None:
            return
        # every service sample belongs to a service start
        starts = set()
        for holder, ind in self.hub.all_customers():
            for r in ind.data_records:
                if r.record_type in ("service", "interrupted service"):
                    starts.add((r.node, r.id_number, r.service_start_date))
            if holder.id_number != -1 and ind.service_start_date is not False:
                starts.add((holder.id_number, ind.id_number, ind.service_start_date))
        for (nd, cid, t, v) in self.srv_samples:
            if (nd, cid, t) not in starts:
                self.violate("service_sample_without_service_start", {"node": nd, "id": cid, "t": t, "value": v})


class Spec(object):
    id = "C10"
    rule = ("every execution = one complete answer sequence; the sample log of the harness distributions is compared "
            "with arrival instants, batch sizes and service durations; invalid family: exactly one invalid answer at "
            "each sample position of the default execution (deviation bound 1); non-trivial = a completed service was "
            "compared with its sample or an invalid answer was rejected; distinct = distinct observation digest")
    assumptions = [
        "service duration clause at ordinary nodes without pre-emption (C11 covers pre-emption, C19 PS nodes)",
        "'raises an error' = any exception escaping the entry point before the next event boundary",
    ]

    def monitors(self, cfg):
        if any(n.get("preempt") or (isinstance(n.get("c"), dict) and (n["c"].get("sched") or {}).get("preempt")) for n in cfg["nodes"]):
            # pre-emption families: the per-visit sample identities of C11 state "lasts exactly the sampled time"
            from .c11 import Monitor as M11
            from ..history import History
            return [History(), Monitor(cfg), M11(cfg)]
        return [Monitor(cfg)]

    def nontrivial(self, cfg, res):
        return "service_checked" in res.flags or "invalid_rejected" in res.flags or "visit_with_interruption" in res.flags

    def families(self, tier):
        return focused(tier)


BAD_T = [-1.0, float("nan"), None, "1"]
BAD_B = [1.5, -1, "2", None]


def focused(tier):
    K = 3 if tier == "quick" else 4
    out = []
    fam = "F-samples"
    out.append(single("c=1 batch", fam, c=1, K=K, srv=SRV2, classkw={"batch": [[1, 2, 0]]}, features=["batching"]))
    out.append(cfg("two nodes two streams", fam, [node(c=1), node(c=1)],
                   {"A": klass([ARR, [1.0, 2.0]], [SRV2, [1.0, 0.5]], route=matrix([[0.0, 0.5], [0.0, 0.0]]))}, K=2, T=12.0, features=["streams"]))
    out.append(cfg("two classes two nodes", fam, [node(c=2), node(c=1)],
                   {"A": klass([ARR, None], [SRV2, [1.0, 0.5]], route=matrix([[0.0, 1.0], [0.0, 0.0]])),
                    "B": klass([None, [1.0, 2.0]], [[1.0], [0.5, 3.0]], route=matrix([[0.0, 0.0], [0.5, 0.0]]))}, K=2, T=12.0, features=["streams", "classes"]))
    for nm, c in (("inf", "inf"), ("sched", {"sched": {"numbers": [1, 0, 2], "ends": [1.5, 2.5, 4.0], "preempt": False}}),
                  ("slotted", {"slotted": {"slots": [1.0, 1.5, 3.0], "sizes": [1, 2, 1], "capacitated": False, "preempt": False}})):
        out.append(single("node kind %s" % nm, fam, c=c, K=K, T=12.0, srv=SRV2, features=[nm]))
    out.append(cfg("time dependent menus", fam, [node(c=1)],
                   {"A": klass([{"values": [0.5, 1.5], "by_t": [[2.0, [1.0, 0.25]]]}], [{"values": [2.0, 0.5], "by_t": [[1.5, [1.0, 0.75]]]}])},
                   K=K, features=["time_dependent"]))
    out.append(cfg("state dependent menus", fam, [node(c=1, class_change={"A": {"A": 0.5, "B": 0.5}, "B": {"A": 0.0, "B": 1.0}})],
                   {"A": klass([ARR], [{"values": [2.0, 0.5], "by_class": {"A": [2.0, 0.5], "B": [1.0, 0.25]}}], route=matrix([[0.5]])),
                    "B": klass([None], [{"values": [1.0, 0.25], "by_class": {"A": [2.0, 0.5], "B": [1.0, 0.25]}}], route=matrix([[0.5]]))},
                   K=2, T=8.0, D=4 if tier == "quick" else 6, features=["state_dependent"]))
    out.append(tandem("tandem blocking", fam, c=(1, 1), caps=(None, 0), K=K, features=["blocking"]))
    # a service time sampled at one node must not survive into the next visit (the customer WAITS at node 2)
    for nm, c in (("inf", "inf"), ("sched", {"sched": {"numbers": [1, 0, 2], "ends": [1.5, 2.5, 4.0], "preempt": False}}),
                  ("slotted", {"slotted": {"slots": [1.0, 1.5, 3.0], "sizes": [2, 2, 1], "capacitated": False, "preempt": False}}),
                  ("ps", "inf"), ("c=2", 2)):
        nk = ({"ps": True} if nm == "ps" else None, None)
        out.append(tandem("%s -> c=1 with waiting" % nm, fam, c=(c, 1), caps=(None, None), K=K, T=12.0, arr=[0.5, 0.25],
                          srv=[[1.0, 0.5], [2.0, 0.75]], nodekw=nk, D=5 if tier == "quick" else 8, features=[nm, "tandem"]))
    from .c11 import ties_and_disciplines
    out += [c for c in ties_and_disciplines(tier, fam="F-samples-preempt") if "tie" in c["name"] or "sched" in c["name"]]
    for opt in ("resume", "restart", "resample"):
        out.append(single("sched-preempt %s (one sample per service)" % opt, "F-samples-preempt", K=K, T=10.0, srv=[3.0, 1.0],
                          c={"sched": {"numbers": [1, 0, 2], "ends": [1.5, 2.5, 4.0], "preempt": opt}}, features=["schedule", "preempt_sched"]))
    # round 5: interrupted customers left over after a shift end while the resumed one is blocked and released by another node's event
    out += [c for c in sched_preempt_chain(tier, fam="F-samples-preempt") if "[2,1]" in c["name"]]
    out.append(single("batch overshoots capacity", fam, c=1, K=K, srv=SRV2, nodekw={"cap": 1}, classkw={"batch": [[4, 1, 3]]}, features=["batching", "capacity"]))
    out.append(single("batch overshoots system capacity", fam, c=2, K=K, srv=SRV2, system_capacity=2, classkw={"batch": [[4, 1]]}, features=["batching", "syscap"]))
    # invalid answers: one per sample position of the default execution
    fam = "F-invalid"
    out.append(cfg("invalid c=1 batch", fam, [node(c=1)],
                   {"A": klass([ARR + BAD_T], [SRV2 + BAD_T], batch=[[1, 2] + BAD_B])}, K=K, D=1, features=["invalid"]))
    out.append(cfg("invalid tandem", fam, [node(c=1), node(c="inf")],
                   {"A": klass([ARR + BAD_T, [1.0] + BAD_T], [SRV2 + BAD_T, [1.0, 0.5] + BAD_T], route=matrix([[0.0, 1.0], [0.0, 0.0]]))},
                   K=2, D=1, features=["invalid"]))
    for nm, c in (("sched", {"sched": {"numbers": [1, 0, 2], "ends": [1.5, 2.5, 4.0], "preempt": False}}),
                  ("slotted", {"slotted": {"slots": [1.0, 1.5, 3.0], "sizes": [1, 2, 1], "capacitated": False, "preempt": False}}),
                  ("ps", "inf")):
        nk = {"ps": True} if nm == "ps" else {}
        out.append(single("invalid %s" % nm, fam, c=c, K=2, T=8.0, arr=ARR + BAD_T, srv=SRV2 + BAD_T, D=1, nodekw=nk, features=["invalid", nm]))
    out.append(single("invalid exact", fam, c=1, K=2, arr=ARR + BAD_T, srv=SRV2 + BAD_T, D=1, exact=12, features=["invalid", "exact"]))
    return out


SPEC = Spec()
