"""C16 Pause/resume transparency."""
import itertools
from math import isinf

from ..families import *
from .. import harness, env
from ..canon import observation


def stats(Q):
    out = []
    for nd in Q.transitive_nodes:
        srv = []
        if hasattr(nd, "servers") and not isinf(nd.c):
            for s in nd.servers:
                srv.append((s.id_number, s.busy_time, s.total_time))
        out.append((nd.id_number, getattr(nd, "server_utilisation", None), srv))
    return out


def close(a, b):
    if a is None or b is None or a is False or b is False:
        return a is b or a == b
    return abs(float(a) - float(b)) <= 1e-9


class Watch(object):
    """records the event instants of the unsplit run"""

    def __init__(self):
        self.instants = []
        self.validated = 0
        self.counters = {}

    def on_boundary(self, Q):
        self.instants.append(Q.current_time)


class Spec(object):
    id = "C16"
    account = True
    rule = ("every execution = one complete answer sequence (unbounded streams, pairwise incommensurable menus) of the "
            "unsplit run to T; for each tie-free execution EVERY split vector with 1 cut plus all pairs among the first six cut points (quick) / up to 2 cuts (thorough) "
            "taken from {event instants, midpoints between consecutive event instants} is re-executed with the same "
            "answer sequence; non-trivial = at least one split run was compared; distinct = distinct observation digest")
    assumptions = [
        "executions with simultaneous events are outside the proviso and are skipped (counted)",
        "records and final clock must be identical; busy_time, total_time, utilisation within 1e-9",
        "a split run that consumes a different answer sequence is itself a violation",
    ]
    max_cuts = 1

    def monitors(self, cfg):
        return [Watch()]

    def nontrivial(self, cfg, res):
        return "split_compared" in res.flags

    def families(self, tier):
        self.max_cuts = 1 if tier == "quick" else 2
        return focused(tier)

    def post(self, cfg, res, mons):
        w = next(m for m in mons if isinstance(m, Watch))
        out = []
        if res.status != "ok" or res.Q is None:
            return out
        if res.ties:
            w.counters["skipped_tied_executions"] = 1
            return out
        T = cfg["entry"][1]
        ref_obs = observation(res.Q, [])
        ref_clock = res.Q.current_time
        ref_stats = stats(res.Q)
        inst = sorted(set(float(t) for t in w.instants if 0 < t < T))
        pts = sorted(set(inst + [(a + b) / 2.0 for a, b in zip([0.0] + inst, inst + [T])]))
        pts = [p for p in pts if 0 < p < T]
        cutsets = [(p,) for p in pts]
        if self.max_cuts >= 2:
            cutsets += list(itertools.combinations(pts, 2))
        else:
            # quick tier: every pair among the first six cut points (two pauses inside one service / busy spell)
            cutsets += list(itertools.combinations(pts[:6], 2))
        for cuts in cutsets:
            def drive(Q, hub, cuts=cuts):
                for c in cuts:
                    Q.simulate_until_max_time(c)
                Q.simulate_until_max_time(T)
            try:
                tw = harness.run(cfg, tuple(res.choices), [], ptags=list(zip(res.tags, res.arity)), strict=True, keep_Q=True, drive=drive)
            except env.Divergence as e:
                out.append(("split_run_takes_other_decisions", {"cuts": list(cuts), "divergence": str(e)[:200],
                                                                "cut_on_event_instant": [c in inst for c in cuts]}))
                break
            w.validated += 1
            res.flags.add("split_compared")
            if tw.status != "ok":
                out.append(("split_run_failed", {"cuts": list(cuts), "status": tw.status, "exception": (tw.exception or [None, None])[:2]}))
                break
            on_inst = [c in inst for c in cuts]
            if observation(tw.Q, []) != ref_obs:
                out.append(("records_differ", {"cuts": list(cuts), "cut_on_event_instant": on_inst}))
                break
            if tw.Q.current_time != ref_clock:
                out.append(("final_clock_differs", {"cuts": list(cuts), "unsplit": ref_clock, "split": tw.Q.current_time}))
                break
            st = stats(tw.Q)
            bad = None
            for (n1, u1, s1), (n2, u2, s2) in zip(ref_stats, st):
                if not close(u1, u2):
                    bad = ("node_utilisation_differs", {"node": n1, "unsplit": u1, "split": u2})
                elif len(s1) != len(s2):
                    bad = ("server_roster_differs", {"node": n1})
                else:
                    for (i1, b1, t1), (i2, b2, t2) in zip(s1, s2):
                        if i1 != i2 or not close(b1, b2) or not close(t1, t2):
                            bad = ("server_busy_or_total_time_differs", {"node": n1, "server": i1, "unsplit": [b1, t1], "split": [b2, t2]})
                            break
                if bad:
                    break
            if bad:
                bad[1]["cuts"] = list(cuts)
                bad[1]["cut_on_event_instant"] = on_inst
                out.append(bad)
                break
        return out


A1 = [1.0, 1.37]
S1 = [0.61, 2.23]
S2 = [0.83, 1.91]


def focused(tier):
    out = []
    fam = "F-pause"
    T = 5.3
    K = None
    D = 3 if tier == "quick" else 5

    def mk(name, nodes, classes, **kw):
        out.append(cfg(name, fam, nodes, classes, K=K, T=kw.pop("T", T), D=kw.pop("D", D), features=["pause"], **kw))
    mk("c=1", [node(c=1)], {"A": klass([A1], [S1])})
    mk("c=2", [node(c=2)], {"A": klass([[0.47, 1.37]], [S1])})
    mk("tandem block", [node(c=1), node(c=1, cap=0)], {"A": klass([A1, None], [S1, S2], route=matrix([[0.0, 1.0], [0.0, 0.0]]))})
    mk("sched", [node(c={"sched": {"numbers": [1, 0, 2], "ends": [1.13, 1.97, 3.31], "preempt": False}})], {"A": klass([A1], [S1])})
    mk("sched resume", [node(c={"sched": {"numbers": [1, 0, 2], "ends": [1.13, 1.97, 3.31], "preempt": "resume"}})], {"A": klass([A1], [S1])})
    mk("renege", [node(c=1)], {"A": klass([A1], [S1], renege=[[0.71, 1.53]])})
    mk("priorities resume", [node(c=1, preempt="resume")], {"A": klass([A1], [S1], prio=1), "B": klass([[1.19, 2.03]], [S2], prio=0)})
    mk("ps", [node(c="inf", ps=True)], {"A": klass([A1], [S1])})
    mk("slotted", [node(c={"slotted": {"slots": [0.93, 1.71, 2.57], "sizes": [1, 2, 1], "capacitated": False, "preempt": False}})], {"A": klass([A1], [S1])})
    mk("inf servers", [node(c="inf")], {"A": klass([A1], [S1])})
    # the final horizon inside a zero-server shift (utilisation undefined there), also in exact arithmetic
    for pre in (False, "resume"):
        for ex in (None, 26):
            kw = {"exact": ex} if ex else {}
            mk("sched preempt=%s, T in the zero-server shift%s" % (pre, ", exact=26" if ex else ""),
               [node(c={"sched": {"numbers": [1, 0, 2], "ends": [1.13, 1.97, 3.31], "preempt": pre}})], {"A": klass([A1], [S1])}, T=4.81, **kw)
    mk("sched [1,0] overtime, exact=26", [node(c={"sched": {"numbers": [1, 0], "ends": [2.13, 3.47], "preempt": False}})], {"A": klass([A1], [[1.61, 2.23]])},
       T=6.3, exact=26)
    # the documented server priority function (least busy time first) reads a statistic that a pause touches
    mk("c=2 least-busy server first", [node(c=2, server_priority="less_busy")], {"A": klass([[0.47, 1.37]], [S1])})
    mk("c=2 least-utilised server first", [node(c=2, server_priority="less_utilised")], {"A": klass([[0.47, 1.37]], [S1])})
    out[-1]["features"] = sorted(out[-1]["features"] + ["srvprio_reads_total_time"])
    mk("c=3 least-busy server first", [node(c=3, server_priority="less_busy")], {"A": klass([[0.47, 0.29]], [S1])}, T=4.1)
    return out


SPEC = Spec()
