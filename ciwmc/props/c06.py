"""C06 Finite capacity."""
from ..families import *
from .. import oracles
from ..history import History, markers

INF = float("inf")


class Monitor(object):
    prop = "C06"

    def __init__(self, cfg):
        self.cfg = cfg
        self.validated = 0
        self.caps = [oracles.capacity(n) for n in cfg["nodes"]]
        sc = cfg.get("system_capacity")
        self.syscap = INF if sc in (None, "inf") else sc
        self.pre = None
        self.A = 0

    def violate(self, clause, detail):
        detail["history"] = markers(self.hub)
        self.hub.violate("C06", clause, detail)

    def pops(self, Q):
        return [len(nd.all_individuals) for nd in Q.transitive_nodes]

    def on_pre_event(self, node, et):
        if et == "arrival":
            Q = self.hub.Q
            self.pre = (self.pops(Q), node.next_node, node.next_class, Q.current_time)

    def on_boundary(self, Q):
        hub = self.hub
        pops = self.pops(Q)
        for i, (p, cap) in enumerate(zip(pops, self.caps)):
            if cap is not None and p > cap:
                self.violate("node_over_capacity", {"node": i + 1, "population": p, "capacity": cap})
        if sum(pops) > self.syscap:
            self.violate("system_over_capacity", {"population": sum(pops), "capacity": self.syscap})
        A = Q.nodes[0].number_of_individuals
        if self.pre is not None:
            pre_pops, nid, cls, t = self.pre
            self.pre = None
            pop = list(pre_pops)
            cap = self.caps[nid - 1]
            where = {}
            for nd in Q.transitive_nodes:
                for ind in nd.all_individuals:
                    where[ind.id_number] = nd.id_number
            exit_inds = {ind.id_number: ind for ind in Q.nodes[-1].all_individuals}
            has_baulk = bool((self.cfg["classes"][cls].get("baulk") or [None] * len(pop))[nid - 1])
            for i in range(self.A + 1, A + 1):
                full = (cap is not None and pop[nid - 1] >= cap) or (sum(pop) >= self.syscap)
                ind = exit_inds.get(i)
                rec = ind.data_records[0] if (ind is not None and ind.data_records) else None
                rejected = rec is not None and rec.record_type == "rejection"
                baulked = rec is not None and rec.record_type == "baulk"
                if cap is None:
                    # schedule/slotted node with a finite queue capacity: 'servers + capacity' is not a constant
                    if not rejected and not baulked:
                        pop[nid - 1] += 1
                    continue
                if full:
                    hub.flags.add("rejection_expected")
                    if not rejected:
                        self.violate("admitted_although_full", {"id": i, "node": nid, "population": pop[nid - 1], "capacity": cap,
                                                                      "system_population": sum(pop), "system_capacity": self.syscap,
                                                                      "found": "baulk" if baulked else where.get(i, "exit")})
                    else:
                        if rec.queue_size_at_arrival != pop[nid - 1] or rec.arrival_date != t or rec.exit_date != t or rec.node != nid:
                            self.violate("rejection_record_wrong", {"id": i, "record": [harness_js(x) for x in rec],
                                                                           "population_seen": pop[nid - 1], "t": t})
                else:
                    if rejected:
                        self.violate("rejected_although_space", {"id": i, "node": nid, "population": pop[nid - 1], "capacity": cap,
                                                                       "system_population": sum(pop), "system_capacity": self.syscap})
                    elif baulked:
                        if not has_baulk:
                            self.violate("baulked_without_baulking_function", {"id": i, "node": nid})
                    else:
                        if where.get(i) is None and i in exit_inds:
                            # admitted and already gone in the same event: impossible without an intermediate event
                            self.violate("admitted_customer_at_exit", {"id": i})
                        pop[nid - 1] += 1
                        hub.flags.add("admitted")
        self.A = A

    def on_end(self, Q, status, exc):
        self.validated = 1


def harness_js(x):
    from ..harness import _js
    return _js(x)


class Spec(object):
    id = "C06"
    rule = ("every execution = one complete answer sequence of one capacity configuration; non-trivial = at least one "
            "arrival found its node or the system full (a rejection was expected) and at least one was admitted; "
            "distinct = distinct observation digest")
    assumptions = [
        "no pre-emptive 're-route' option (documented exception) in the families",
        "nodes with schedules/slots are given infinite queue capacity: their 'servers + capacity' is not a constant",
        "batch members are admitted one by one in id order against the population left by the previous member",
    ]

    def monitors(self, cfg):
        return [History(), Monitor(cfg)]

    def nontrivial(self, cfg, res):
        return "rejection_expected" in res.flags and "admitted" in res.flags

    def families(self, tier):
        from .. import universal
        # documented exception: pre-emptive re-routing ignores capacities
        return focused(tier) + universal.subset(tier, ["cap", "syscap"], exclude=["reroute"])

    def explicit_families(self, tier):
        out = [single("E c=1 cap=1", "E", c=1, K=None, T=BIG, srv=SRV2, nodekw={"cap": 1}, features=["explicit", "capacity"])]
        if tier != "quick":
            out.append(single("E c=2 cap=1 batches", "E", c=2, K=None, T=BIG, srv=SRV2, nodekw={"cap": 1}, classkw={"batch": [[2, 1, 0]]}, features=["explicit", "capacity"]))
            out.append(single("E syscap=2 renege", "E", c=1, K=None, T=BIG, srv=[4.0, 1.0], system_capacity=2, classkw={"renege": [[1.5, 0.5]]}, features=["explicit", "syscap"]))
            out.append(cfg("E tandem cap=0 syscap=3 both external", "E", [node(c=1), node(c=1, cap=0)],
                           {"A": klass([ARR, [1.0, 2.0]], [SRV2, SRV2], route=matrix([[0.0, 1.0], [0.0, 0.0]]))}, K=None, T=BIG, system_capacity=3, features=["explicit"]))
        return out


def focused(tier):
    K = 4 if tier == "quick" else 5
    out = []
    fam = "F-cap"
    for c in (0, 1, 2):
        for cap in (0, 1, 2):
            if c == 2 and cap == 2 and tier == "quick":
                continue
            out.append(single("c=%s cap=%s" % (c, cap), fam, c=c, K=K, srv=SRV2, nodekw={"cap": cap}, features=["capacity"]))
    out.append(single("inf cap=1", fam, c="inf", K=K, srv=SRV2, nodekw={"cap": 1}, features=["capacity"]))
    for sc in (1, 2, 3):
        out.append(single("syscap=%d c=1" % sc, fam, c=1, K=K, srv=SRV2, system_capacity=sc, features=["syscap"]))
    out.append(single("syscap=2 cap=1", fam, c=1, K=K, srv=SRV2, nodekw={"cap": 1}, system_capacity=2, features=["syscap", "capacity"]))
    out.append(single("syscap=2 cap=0 c=2", fam, c=2, K=K, srv=SRV2, nodekw={"cap": 0}, system_capacity=2, features=["syscap", "capacity"]))
    out.append(single("batch cap=1", fam, c=1, K=K - 1, srv=SRV2, nodekw={"cap": 1}, classkw={"batch": [[2, 1, 0]]}, features=["batching", "capacity"]))
    out.append(single("batch syscap=2", fam, c=1, K=K - 1, srv=SRV2, system_capacity=2, classkw={"batch": [[2, 3, 0]]}, features=["batching", "syscap"]))
    out.append(single("baulk cap=1", fam, c=1, K=K, srv=SRV2, nodekw={"cap": 1}, classkw={"baulk": [{"by_n": [0.0, 0.5, 1.0]}]}, features=["baulking", "capacity"]))
    # two classes arriving at the same instant at a full node
    out.append(cfg("two classes same instant cap=0", fam, [node(c=1, cap=0)],
                   {"A": klass([[1.0]], [SRV2]), "B": klass([[1.0, 2.0]], [SRV2])}, K=2, features=["capacity", "ties"]))
    out.append(cfg("two classes syscap=1", fam, [node(c=1)],
                   {"A": klass([[1.0]], [SRV2]), "B": klass([[1.0, 2.0]], [SRV2])}, K=2, system_capacity=1, features=["syscap", "ties"]))
    # two nodes: transfers block, external arrivals to the downstream node are rejected
    out.append(cfg("tandem both external cap=0", fam, [node(c=1), node(c=1, cap=0)],
                   {"A": klass([ARR, [1.0, 2.0]], [SRV2, SRV2], route=matrix([[0.0, 1.0], [0.0, 0.0]]))}, K=2, features=["capacity", "blocking"]))
    out.append(cfg("tandem syscap=2", fam, [node(c=1), node(c=1)],
                   {"A": klass([ARR, [1.0, 2.0]], [SRV2, SRV2], route=matrix([[0.0, 1.0], [0.0, 0.0]]))}, K=2, system_capacity=2, features=["syscap"]))
    # system capacity together with every way of leaving early
    out.append(single("syscap=2 renege", fam, c=1, K=K + 1, srv=[4.0, 1.0], system_capacity=2, classkw={"renege": [[1.5, 0.5]]}, features=["syscap", "reneging"]))
    out.append(single("syscap=2 cap=1 renege", fam, c=1, K=K, srv=[4.0, 1.0], nodekw={"cap": 1}, system_capacity=3, classkw={"renege": [[1.5, 0.5]]}, features=["syscap", "capacity", "reneging"]))
    out.append(single("syscap=2 baulk", fam, c=1, K=K, srv=SRV2, system_capacity=2, classkw={"baulk": [{"by_n": [0.0, 0.5, 1.0]}]}, features=["syscap", "baulking"]))
    out.append(cfg("syscap=2 renege jockey", fam, [node(c=1), node(c=1)],
                   {"A": klass([ARR, None], [[4.0, 1.0], SRV2], renege=[[1.5, 0.5], None], route=network(direct(2, jockey_to=2), leave()))},
                   K=K, system_capacity=2, features=["syscap", "reneging"]))
    out.append(two_class_single("syscap=2 preempt resume", fam, c=1, K=2, prios=(1, 0), preempt="resume", system_capacity=2, features=["syscap", "preempt_prio"]))
    out.append(cfg("syscap=2 tandem block", fam, [node(c=1), node(c=1, cap=0)],
                   {"A": klass([ARR, None], [[1.0, 0.5], SRV2], route=matrix([[0.0, 1.0], [0.0, 0.0]]))}, K=K, system_capacity=2, features=["syscap", "blocking"]))
    out.append(single("ps cap1 thr2 qcap=1", fam, c=1, K=K, srv=SRV2, nodekw={"cap": 1, "ps": True, "ps_threshold": 2}, features=["ps", "capacity"]))
    out.append(single("ps cap3 thr1 qcap=0", fam, c=3, K=K, srv=SRV2, nodekw={"cap": 0, "ps": True}, features=["ps", "capacity"]))
    out.append(single("ps cap2 qcap=1", fam, c=2, K=K, srv=SRV2, nodekw={"cap": 1, "ps": True}, features=["ps", "capacity"]))
    return out


SPEC = Spec()
