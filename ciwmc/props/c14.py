"""C14 Runs end normally and stop exactly at the requested horizon or count."""
from ..families import *
from .. import universal
from ..history import History, markers


class Monitor(object):
    prop = "C14"

    def __init__(self, entry):
        self.entry = entry
        self.validated = 0
        self.count_prev = None
        self.last_pre = None
        self.preempted_blocked = False

    def on_detach(self, server):
        # history marker for a known finding: a priority pre-emption evicted a *blocked* customer
        ind = server.cust
        if ind and ind.is_blocked:
            import sys
            f = sys._getframe(1)
            for _ in range(8):
                if f is None:
                    break
                if f.f_code.co_name == "preempt":
                    self.preempted_blocked = True
                    self.hub.flags.add("preempted_blocked_customer")
                    break
                f = f.f_back

    # ---- independent recomputation of the four counters -------------------------------------------
    def count(self, Q):
        m = self.entry[2]
        ex = Q.nodes[-1].all_individuals
        if m == "Finish":
            return (len(ex),)
        if m == "Complete":
            # lower/upper reading: a customer rerouted to the exit by a pre-emption may or may not count
            lo = hi = 0
            for ind in ex:
                r = ind.data_records[-1] if ind.data_records else None
                if r is not None and r.record_type == "service":
                    lo += 1
                    hi += 1
                elif r is not None and r.record_type == "interrupted service":
                    hi += 1
            return (lo, hi)
        ids = set(i.id_number for i in ex)
        for nd in Q.transitive_nodes:
            ids.update(i.id_number for i in nd.all_individuals)
        if m == "Arrive":
            return (len(ids),)
        if m == "Accept":
            rej = 0
            for ind in ex:
                if ind.data_records and ind.data_records[0].record_type in ("rejection", "baulk"):
                    rej += 1
            return (len(ids) - rej,)
        return (0,)

    def on_init(self, Q):
        if self.entry[0] == "max_customers":
            self.count_prev = self.count(Q)

    def on_pre_event(self, node, et):
        Q = self.hub.Q
        if self.entry[0] == "max_time":
            if not (Q.current_time < self.entry[1]):
                self.hub.violate("C14", "event_at_or_after_horizon", {"T": self.entry[1], "clock": Q.current_time, "event": et})
        elif self.entry[0] == "max_customers":
            n = self.entry[1]
            if self.count_prev is not None and min(self.count_prev) >= n:
                self.hub.violate("C14", "continued_after_count_reached", {"n": n, "method": self.entry[2], "count": self.count_prev})

    def on_boundary(self, Q):
        if self.entry[0] == "max_customers":
            self.count_prev = self.count(Q)

    def on_end(self, Q, status, exc):
        self.validated = 1
        hub = self.hub
        if status == "exception":
            tb = exc[2].strip().splitlines()
            where = next((l.strip().split(", in ")[-1] for l in reversed(tb) if l.strip().startswith("File")), "?")
            hub.violate("C14", "exception", {"type": exc[0], "where": where, "message": exc[1][:200],
                                             "after_priority_preemption_of_blocked_customer": self.preempted_blocked,
                                             "history": markers(hub)})
            return
        if status == "truncated" and self.entry[0] == "max_time" and hub.nevents >= hub.max_events:
            # finite arrival streams and a finite horizon: a run that is still executing events after the event bound
            # (several times more than any run of the family needs) does not terminate normally (livelock)
            hub.violate("C14", "no_progress_towards_horizon", {"events_executed": hub.nevents, "clock": Q.current_time if Q else None,
                                                               "T": self.entry[1]})
            return
        if status != "ok" or Q is None:
            return
        if hub.nevents >= 2:
            hub.flags.add("ran")
        if self.entry[0] == "max_time":
            T = self.entry[1]
            pend = min(nd.next_event_date for nd in Q.nodes[:-1])
            if pend < T:
                hub.violate("C14", "stopped_before_horizon", {"T": T, "pending": pend})
            A = Q.nodes[0].number_of_individuals
            located = sum(len(nd.all_individuals) for nd in Q.nodes[1:])
            if A != located:
                hub.violate("C14", "customers_not_left_in_place", {"arrivals": A, "located": located})
        elif self.entry[0] == "max_customers":
            n = self.entry[1]
            c = self.count(Q)
            if max(c) < n:
                hub.violate("C14", "stopped_before_count_reached", {"n": n, "method": self.entry[2], "count": c})


class Spec(object):
    id = "C14"
    rule = ("every execution = one answer sequence with at most D non-default answers of one feature combination "
            "and entry point; non-trivial = the run returned normally after at least two events; distinct = distinct "
            "observation digest")
    assumptions = [
        "'valid network' = a combination of documented features accepted by create_network; combinations the docs do "
        "not present as supported are not generated (see universal.py _incompatible)",
        "simulate_until_max_customers is called with n >= 1",
        "an execution cut by the harness event bound (BoundReached) is not judged on its stop condition",
    ]

    def monitors(self, cfg):
        return [History(), Monitor(cfg["entry"])]

    def nontrivial(self, cfg, res):
        return "ran" in res.flags

    def families(self, tier):
        out = universal.family(tier)
        # every focused family of the other properties is also a normal-termination test (complete trees)
        import importlib
        seen = set()
        for other in ("c01", "c02", "c03", "c04", "c05", "c06", "c07", "c08", "c09", "c11", "c12", "c13", "c19"):
            try:
                m = importlib.import_module("ciwmc.props." + other)
            except ImportError:
                continue
            for c in m.focused(tier):
                if c["name"] in seen or c.get("entry", ["max_time"])[0] != "max_time":
                    continue
                seen.add(c["name"])
                # normal termination needs no complete tree here (the owning property explores it completely)
                c = dict(c, D=min(c.get("D", INF), 2 if tier == "quick" else 4), family="F-imported")
                out.append(c)
        out += sched_preempt_classchange_block(tier)       # complete trees (the crash needs five deviations)
        singles = [c for c in universal.family("quick") if len(c["features"]) <= (1 if tier == "quick" else 2)]
        import copy
        for T in (4.25, 15.0):
            for c in singles:
                d = copy.deepcopy(c)
                d["entry"] = ["max_time", T]
                d["name"] += " T=%s" % T
                d["family"] = "U-horizons"
                out.append(d)
        for method in ("Complete", "Finish", "Arrive", "Accept"):
            for n in (1, 3):
                for c in singles:
                    d = copy.deepcopy(c)
                    d["entry"] = ["max_customers", n, method]
                    d["K"] = None          # unbounded streams
                    d["max_events"] = 14
                    d["D"] = 1 if tier == "quick" else 2
                    d["name"] += " %s(%d)" % (method, n)
                    d["family"] = "U-counts"
                    out.append(d)
        return out


SPEC = Spec()
