"""C08 Service order."""
from math import isinf

from ..families import *
from .. import oracles
from ..history import History, markers


class Monitor(object):
    prop = "C08"

    def __init__(self, cfg):
        self.cfg = cfg
        self.validated = 0
        self.last_pick = {}      # node id -> customer id picked by the discipline in this event
        self.picks = {}          # node id -> [ids] picked in this event
        self.moved_prio = set()  # (node, id): priority class changed while waiting in this visit
        self.kinds = {i + 1: oracles.node_kind(n) for i, n in enumerate(cfg["nodes"])}
        self.disc = {i + 1: n.get("discipline", "FIFO") for i, n in enumerate(cfg["nodes"])}

    def violate(self, clause, detail):
        detail["history"] = markers(self.hub)
        self.hub.violate("C08", clause, detail)

    def waiting(self, node, exclude=None):
        kind = self.kinds[node.id_number]
        if kind in ("fixed", "sched"):
            held = set(id(s.cust) for s in node.servers if s.cust)
            return [i for i in node.all_individuals if id(i) not in held and not i.interrupted and i is not exclude]
        if kind == "slotted":
            return [i for i in node.all_individuals if not i.server and i is not exclude]
        return []

    def on_pre_event(self, node, et):
        self.last_pick = {}
        self.picks = {}

    def on_classchange(self, node, ind):
        if ind.priority_class != ind.prev_priority_class:
            self.moved_prio.add((node.id_number, ind.id_number))

    def on_release(self, node, dest, ind, blocked):
        self.moved_prio.discard((node.id_number, ind.id_number))

    def on_renege(self, node, dest, ind):
        self.moved_prio.discard((node.id_number, ind.id_number))

    def on_discipline(self, node_id, name, individuals, t, pick):
        Q = self.hub.Q
        node = Q.nodes[node_id]
        self.hub.flags.add("discipline_called")
        w = self.waiting(node)
        if not w:
            self.violate("discipline_called_without_waiting_customer", {"node": node_id})
            return
        best = min(i.priority_class for i in w)
        expect = [i for i in w if i.priority_class == best]
        if len(expect) >= 2:
            self.hub.flags.add("choice_of_2")
        if sorted(i.id_number for i in individuals) != sorted(i.id_number for i in expect):
            self.violate("candidates_ne_best_priority_waiting", {"node": node_id, "offered": [i.id_number for i in individuals],
                                                                 "expected": [i.id_number for i in expect], "best_priority": best})
            return
        unmoved = [i for i in individuals if (node_id, i.id_number) not in self.moved_prio]
        dates = [i.arrival_date for i in unmoved]
        # (the ORDER of the list handed to the discipline is an internal convention, not part of the property: only the
        #  pick is judged)
        if pick not in individuals:
            self.violate("pick_not_a_candidate", {"node": node_id, "pick": getattr(pick, "id_number", None)})
            return
        if (node_id, pick.id_number) not in self.moved_prio and unmoved:
            if name == "FIFO" and pick.arrival_date > min(dates):
                self.violate("fifo_pick_not_earliest", {"node": node_id, "pick": [pick.id_number, pick.arrival_date],
                                                        "offered": [[i.id_number, i.arrival_date] for i in individuals]})
            if name == "LIFO" and pick.arrival_date < max(dates):
                self.violate("lifo_pick_not_latest", {"node": node_id, "pick": [pick.id_number, pick.arrival_date],
                                                      "offered": [[i.id_number, i.arrival_date] for i in individuals]})
        self.last_pick[node_id] = pick.id_number
        self.picks.setdefault(node_id, []).append(pick.id_number)

    def on_attach(self, node, server, ind):
        nid = node.id_number
        self.hub.flags.add("service_started")
        if ind in node.interrupted_individuals:
            # restart of a customer interrupted by a pre-emptive shift end: served before fresh customers (C12's rule)
            return
        # (a customer whose priority was raised while waiting pre-empts directly, without a discipline call;
        #  it is still subject to the priority/FIFO clauses of check_start)
        direct_preemptor = (self.hub.cur_event[2] == "class_change" and self.hub.cur_event[1] == nid
                            and node.next_individual is ind)
        if direct_preemptor:
            self.moved_prio.add((nid, ind.id_number))
        if self.last_pick.get(nid) != ind.id_number and not direct_preemptor:
            self.violate("starter_is_not_the_discipline_pick", {"node": nid, "starter": ind.id_number, "pick": self.last_pick.get(nid)})
        self.check_start(node, ind)

    def check_start(self, node, ind):
        nid = node.id_number
        w = self.waiting(node, exclude=ind)
        better = [i.id_number for i in w if i.priority_class < ind.priority_class]
        if better:
            self.violate("started_while_better_priority_waits", {"node": nid, "starter": [ind.id_number, ind.priority_class], "waiting_better": better})
        if self.disc[nid] == "FIFO" and (nid, ind.id_number) not in self.moved_prio:
            earlier = [i.id_number for i in w if i.priority_class == ind.priority_class and i.arrival_date < ind.arrival_date
                       and (nid, i.id_number) not in self.moved_prio]
            if earlier:
                self.violate("fifo_started_while_earlier_equal_priority_waits", {"node": nid, "starter": ind.id_number, "earlier": earlier})

    def on_boundary(self, Q):
        now = Q.current_time
        for nd in Q.transitive_nodes:
            if self.kinds[nd.id_number] == "slotted":
                for ind in nd.all_individuals:
                    if ind.server is True and ind.service_start_date == now and self.hub.cur_event[2] == "slotted_service" \
                            and self.hub.cur_event[1] == nd.id_number:
                        self.hub.flags.add("service_started")
                        if ind.id_number not in self.picks.get(nd.id_number, []) and not any(
                                r.record_type == "interrupted service" and r.arrival_date == ind.arrival_date for r in ind.data_records):
                            self.violate("slot_starter_is_not_a_discipline_pick", {"node": nd.id_number, "starter": ind.id_number,
                                                                                   "picks": self.picks.get(nd.id_number, [])})

    def on_end(self, Q, status, exc):
        self.validated = 1


class Spec(object):
    id = "C08"
    rule = ("every execution = one complete answer sequence of one configuration with priorities/disciplines; non-trivial "
            "= the discipline was offered at least two candidates at some service start; distinct = distinct observation digest")
    assumptions = [
        "pre-emptive schedules are excluded (interrupted customers legitimately restart first: C12)",
        "a customer whose priority class changed while waiting is only subject to the cross-priority clause",
        "order among equal arrival dates is not prescribed",
    ]

    def monitors(self, cfg):
        return [History(), Monitor(cfg)]

    def nontrivial(self, cfg, res):
        return "choice_of_2" in res.flags and "service_started" in res.flags

    def families(self, tier):
        from .. import universal
        return focused(tier) + universal.subset(tier, ["prio", "LIFO", "SIRO", "cct", "preempt"], exclude=["sched_re", "slotted_cap_re"], watch_discipline=True)


def focused(tier):
    K2 = 2
    K = 3 if tier == "quick" else 4
    out = []
    fam = "F-order"
    for disc in ("FIFO", "LIFO", "SIRO"):
        out.append(single("1class c=1 %s" % disc, fam, c=1, K=K + 1, srv=SRV2, nodekw={"discipline": disc}, features=[disc]))
        for c in (1, 2):
            for pre in (False, "resume", "restart"):
                out.append(two_class_single("2class c=%d %s preempt=%s" % (c, disc, pre), fam, c=c, K=K2 if tier == "quick" else 3, prios=(1, 0), preempt=pre,
                                            nodekw={"discipline": disc}, srvA=[2.0, 4.0], srvB=[1.0, 3.0], features=["priorities", disc]))
    # three classes on three levels / two on the same level
    for prios in ((2, 1, 0), (1, 1, 0), (0, 1, 1)):
        cl = {}
        for nm, p, a in zip("ABC", prios, ([0.5, 1.5], [1.0, 2.0], [1.0, 1.5])):
            cl[nm] = klass([a], [[2.0, 1.0]], prio=p)
        out.append(cfg("3class prios=%s" % (prios,), fam, [node(c=1, discipline="FIFO")], cl, K=1 if tier == "quick" else 2, features=["priorities"]))
    # starts triggered by unblocking, by a shift change, by class change
    out.append(cfg("blocking upstream 2class", fam, [node(c=1, discipline="FIFO"), node(c=1, cap=0, discipline="FIFO")],
                   {"A": klass([ARR, None], [[1.0, 0.5], [2.0, 1.0]], route=matrix([[0.0, 1.0], [0.0, 0.0]]), prio=1),
                    "B": klass([[1.0, 2.0], None], [[1.0, 0.5], [2.0, 1.0]], route=matrix([[0.0, 1.0], [0.0, 0.0]]), prio=0)}, K=2, features=["blocking", "priorities"]))
    for disc in ("FIFO", "LIFO"):
        out.append(two_class_single("sched non-preempt 2class %s" % disc, fam, K=2, T=10.0, prios=(1, 0),
                                    c={"sched": {"numbers": [1, 0, 2], "ends": [1.5, 2.5, 4.0], "preempt": False}},
                                    nodekw={"discipline": disc}, features=["schedule", "priorities", disc]))
    out.append(cfg("class change after service", fam, [node(c=1, discipline="FIFO", class_change={"A": {"A": 0.5, "B": 0.5}, "B": {"A": 0.0, "B": 1.0}})],
                   {"A": klass([ARR], [SRV2], route=matrix([[0.5]]), prio=1), "B": klass([[1.0, 2.0]], [SRV2], route=matrix([[0.5]]), prio=0)},
                   K=2, T=8.0, D=4 if tier == "quick" else 6, features=["ccm", "priorities"]))
    for disc in ("FIFO", "LIFO"):
        out.append(cfg("cct prio %s" % disc, fam, [node(c=1, discipline=disc)],
                       {"A": klass([ARR], [SRV2], prio=1, cct={"B": [0.5, 1.5]}), "B": klass([[1.0, 2.0]], [SRV2], prio=0)},
                       K=2, features=["cct", "priorities"]))
        out.append(cfg("cct prio preempt %s" % disc, fam, [node(c=1, discipline=disc, preempt="resume")],
                       {"A": klass([ARR], [SRV2], prio=1, cct={"B": [0.5, 1.5]}), "B": klass([[1.0, 2.0]], [SRV2], prio=0)},
                       K=2, features=["cct", "preempt_prio"]))
    # pre-emptive priorities on top of a pre-emptive schedule with a zero-server shift, three levels: the high-priority
    # customer that arrived during the zero shift waits behind the restarted low one; then a middle one arrives
    for opt in ("resume", "restart"):
        cl = {"A": klass([{"values": [0.5], "budget": 1}], [[4.0, 6.0]], prio=2), "B": klass([{"values": [3.5, 3.25], "budget": 1}], [[1.0, 2.0]], prio=1),
              "C": klass([{"values": [2.5, 2.25], "budget": 1}], [[1.0, 2.0]], prio=0)}
        out.append(cfg("prio preempt + sched preempt %s 3 levels" % opt, fam,
                       [node(c={"sched": {"numbers": [1, 0], "ends": [2.0, 3.0], "preempt": opt}}, preempt=opt, discipline="FIFO")], cl,
                       K=1, T=14.0, features=["preempt_prio", "preempt_sched", "priorities"]))
    # timed class change between two classes of EQUAL priority while another level exists: position must be kept
    for disc in ("FIFO", "LIFO"):
        out.append(cfg("cct same priority + other level %s" % disc, fam, [node(c=1, discipline=disc)],
                       {"A": klass([ARR], [SRV2], prio=1, cct={"B": [0.5, 1.5]}), "B": klass([None], [SRV2], prio=1),
                        "C": klass([{"values": [1.0, 2.0], "budget": 1}], [SRV2], prio=0)}, K=3 if tier == "quick" else 4,
                       D=5 if tier == "quick" else 8, features=["cct", "priorities"]))
    # capacitated pre-emptive slots, ONE priority class (all_individuals is the live queue there), several never-served waiting
    for disc in ("FIFO", "LIFO"):
        out.append(single("slotted capacitated resume 1class %s" % disc, fam, K=5 if tier == "quick" else 6, T=9.0, arr=[0.5, 0.25], srv=[4.0, 1.0],
                          c={"slotted": {"slots": [1.0, 2.0, 3.0], "sizes": [2, 1, 1], "capacitated": True, "preempt": "resume"}},
                          nodekw={"discipline": disc}, D=4 if tier == "quick" else 7, features=["slotted", disc]))
    for disc in ("FIFO", "LIFO", "SIRO"):
        out.append(two_class_single("slotted 2class %s" % disc, fam, K=2, T=8.0, prios=(1, 0),
                                    c={"slotted": {"slots": [1.0, 2.0, 3.0], "sizes": [1, 2, 1], "capacitated": False, "preempt": False}},
                                    nodekw={"discipline": disc}, features=["slotted", "priorities", disc]))
    out += ageing_priorities(tier)
    import copy as _copy
    for c in sched_preempt_classchange_block(tier):     # re-classed customers that are un-blocked and served again
        c = _copy.deepcopy(c)
        for n in c["nodes"]:
            n["discipline"] = "FIFO"
        out.append(c)
    return out


SPEC = Spec()
