"""C19 Processor sharing."""
import copy
from fractions import Fraction

from ..families import *
from .. import oracles, harness

TOL = Fraction(1, 10 ** 9)


def F(x):
    return Fraction(x)


class Monitor(object):
    prop = "C19"

    def __init__(self, cfg):
        self.cfg = cfg
        self.validated = 0
        self.ps = {}
        for i, n in enumerate(cfg["nodes"]):
            if n.get("ps"):
                cap = n.get("c", "inf")
                self.ps[i + 1] = (float("inf") if cap == "inf" else cap, n.get("ps_threshold", 1))
        self.req = {}        # (node, id) -> requirement of the current visit
        self.work = {}       # (node, id) -> work received so far (Fraction)
        self.sharing = {}    # node -> ids in service after the last boundary
        self.last_t = F(0)
        self.empties = {}    # node -> instants at which the node became empty
        self.pop = {}
        self.arrivals = {}   # node -> [(instant, requirement)] for the Lindley reference

    def violate(self, clause, detail):
        self.hub.violate("C19", clause, detail)

    def on_sample(self, menu, t, ind, v):
        if menu.kind == "srv" and menu.node in self.ps and ind is not None:
            self.req[(menu.node, ind.id_number)] = F(v)
            self.work[(menu.node, ind.id_number)] = F(0)

    def on_accept(self, node, ind):
        if node.id_number in self.ps:
            self.arrivals.setdefault(node.id_number, []).append([F(self.hub.Q.current_time), ind.id_number])

    def on_init(self, Q):
        for nid in self.ps:
            self.sharing[nid] = []
            self.pop[nid] = 0
            self.empties[nid] = []

    def advance(self, now):
        """advance everybody that was sharing during the elapsed interval (called BEFORE the event executes, so that
        a customer that leaves and re-enters the node in this event starts its new visit with zero work)"""
        dt = now - self.last_t
        self.last_t = now
        if dt <= 0:
            return
        for nid, (cap, R) in self.ps.items():
            k = len(self.sharing[nid])
            if k:
                rate = min(F(1), F(R) / k)
                for cid in self.sharing[nid]:
                    self.work[(nid, cid)] = self.work.get((nid, cid), F(0)) + dt * rate

    def on_pre_event(self, node, et):
        self.advance(F(self.hub.Q.current_time))

    def on_boundary(self, Q):
        now = F(Q.current_time)
        for nid, (cap, R) in self.ps.items():
            nd = Q.nodes[nid]
            present = list(nd.all_individuals)
            insvc = [i for i in present if getattr(i, "with_server", False)]
            if len(insvc) > cap:
                self.violate("more_than_capacity_sharing", {"node": nid, "sharing": [i.id_number for i in insvc], "capacity": cap})
            want = min(len(present), cap)
            if len(insvc) != want:
                self.violate("sharing_ne_min_population_capacity", {"node": nid, "now": float(now), "sharing": [i.id_number for i in insvc],
                                                                    "present": [i.id_number for i in present], "capacity": cap})
            else:
                # the ones in service are the earliest arrivals present (first come first served)
                by_arrival = sorted(present, key=lambda i: (i.arrival_date, i.id_number))
                latest_in = max([i.arrival_date for i in insvc], default=None)
                waiting = [i for i in present if i not in insvc]
                if waiting and latest_in is not None and min(i.arrival_date for i in waiting) < latest_in:
                    self.violate("later_arrival_served_before_earlier", {"node": nid, "sharing": [[i.id_number, i.arrival_date] for i in insvc],
                                                                         "waiting": [[i.id_number, i.arrival_date] for i in waiting]})
            if len(insvc) >= 2:
                self.hub.flags.add("shared_by_2")
            for i in insvc:
                key = (nid, i.id_number)
                if key in self.req and self.work.get(key, 0) > self.req[key] + TOL:
                    self.violate("still_in_service_after_requirement_received", {"node": nid, "id": i.id_number, "now": float(now),
                                                                                 "received": float(self.work[key]), "requirement": float(self.req[key])})
            self.sharing[nid] = [i.id_number for i in insvc]
            if self.pop[nid] > 0 and len(present) == 0:
                self.empties[nid].append(now)
            self.pop[nid] = len(present)

    def on_release(self, node, dest, ind, blocked):
        # departure from a PS node: the work received must equal the requirement sampled for this visit
        nid = node.id_number
        if nid not in self.ps:
            return
        key = (nid, ind.id_number)
        self.hub.flags.add("ps_departure")
        if key not in self.req:
            self.violate("departure_without_requirement_sample", {"node": nid, "id": ind.id_number})
            return
        got = self.work.get(key, F(0))
        if abs(got - self.req[key]) > TOL:
            self.violate("left_with_work_ne_requirement", {"node": nid, "id": ind.id_number, "exit": self.hub.Q.current_time,
                                                           "received": float(got), "requirement": float(self.req[key])})
        self.work.pop(key, None)
        self.req.pop(key, None)

    def lindley_empties(self, nid, T):
        """busy-period ends of a work-conserving unit-rate server fed with the same arrivals and requirements"""
        arr = self.arrivals.get(nid, [])
        out = []
        v = F(0)
        t = F(0)
        for a, cid in arr:
            req = self.all_req.get((nid, cid, a))
            if req is None or req == 0:
                return None      # (a zero requirement empties the node at its own arrival instant: order dependent, left to the work integrator)
            if a - t == v and v > 0:
                return None      # an arrival exactly when the work runs out: emptying is order dependent
            if a - t > v and v > 0:
                out.append(t + v)
            v = max(F(0), v - (a - t)) + req
            t = a
        if v > 0 and t + v < F(T):
            out.append(t + v)
        return out

    def on_end(self, Q, status, exc):
        self.validated = 1


class ReqLog(object):
    """keeps every (node, id, arrival instant) -> requirement for the Lindley reference"""

    def __init__(self, mon):
        self.mon = mon
        mon.all_req = {}

    def on_sample(self, menu, t, ind, v):
        if menu.kind == "srv" and ind is not None:
            self.mon.all_req[(menu.node, ind.id_number, F(t))] = F(v)


class Spec(object):
    id = "C19"
    rule = ("every execution = one complete answer sequence of one processor-sharing configuration; an exact-rational "
            "work integrator advances every sharing customer by dt*min(1,R/k) between events; unlimited PS nodes are "
            "additionally compared with a Lindley recursion and with a twin run of ciw.Node(c=1, FIFO) scripted with the "
            "same arrivals and requirements; non-trivial = at least two customers shared the node and one departed; "
            "distinct = distinct observation digest")
    assumptions = [
        "no blocking into/out of PS nodes (quantifier); Fraction reference vs float engine compared within 1e-9",
        "the FIFO twin comparison skips executions with simultaneous events (emptying instants are order dependent there)",
    ]

    def monitors(self, cfg):
        m = Monitor(cfg)
        return [ReqLog(m), m]

    def nontrivial(self, cfg, res):
        return "shared_by_2" in res.flags and "ps_departure" in res.flags

    def families(self, tier):
        return focused(tier)

    # ---- twin run: executed by the worker after each execution ------------------------------------------
    def post(self, cfg, res, mons):
        mon = next(m for m in mons if isinstance(m, Monitor))
        out = []
        if res.status != "ok" or res.violations:
            return out
        T = cfg["entry"][1]
        for nid, (cap, R) in mon.ps.items():
            if not (cap == float("inf") and R == 1) or len(cfg["nodes"]) != 1 or len(cfg["classes"]) != 1:
                continue
            ref = mon.lindley_empties(nid, T)
            got = [e for e in mon.empties[nid]]
            if ref is not None and [float(x) for x in ref] != [float(x) for x in got] and \
                    any(abs(a - b) > TOL for a, b in zip(ref, got)) or (ref is not None and len(ref) != len(got)):
                out.append(("ps_empties_ne_work_conserving_reference", {"node": nid, "ps": [float(x) for x in got], "reference": [float(x) for x in ref]}))
                continue
            if res.ties:
                continue
            # twin: the real ciw.Node with one server, FIFO, scripted with the same arrivals and requirements
            tw = copy.deepcopy(cfg)
            tw["nodes"][0] = {"c": 1, "cap": None}
            cn = sorted(cfg["classes"])[0]
            arrs = [s[5] for s in res.samples if s[0] == "arr"]
            reqs = {str(s[4]): s[5] for s in res.samples if s[0] == "srv"}
            tw["classes"][cn]["arr"] = [{"script": arrs}]
            tw["classes"][cn]["srv"] = [{"script": reqs}]
            tmon = EmptyWatch()
            tres = harness.run(tw, (), [tmon])
            if tres.status != "ok":
                out.append(("twin_run_failed", {"status": tres.status, "exc": tres.exception[:2] if tres.exception else None}))
                continue
            if tres.ties:
                continue
            mon.validated += 1
            if [float(x) for x in tmon.empties] != [float(x) for x in got]:
                out.append(("ps_empties_ne_fifo_twin", {"node": nid, "ps": [float(x) for x in got], "fifo": [float(x) for x in tmon.empties]}))
        return out


class EmptyWatch(object):
    def __init__(self):
        self.empties = []
        self.pop = 0

    def on_boundary(self, Q):
        n = len(Q.transitive_nodes[0].all_individuals)
        if self.pop > 0 and n == 0:
            self.empties.append(F(Q.current_time))
        self.pop = n


def focused(tier):
    K = 3 if tier == "quick" else 4
    out = []
    fam = "F-ps"
    REQ = [0.5, 1.0, 1.5]
    for cap in ("inf", 1, 2):
        for R in (1, 2):
            out.append(single("ps cap=%s R=%d" % (cap, R), fam, c=cap, K=K, arr=[0.5, 1.5], srv=REQ, nodekw={"ps": True, "ps_threshold": R}, features=["ps"]))
    out.append(single("ps cap=inf R=1 ties", fam, c="inf", K=K, arr=[0.5, 1.0], srv=[1.0, 0.5], nodekw={"ps": True}, features=["ps", "ties"]))
    out.append(single("ps cap=3 R=2 batches", fam, c=3, K=K - 1, arr=[0.5, 1.5], srv=REQ, nodekw={"ps": True, "ps_threshold": 2}, classkw={"batch": [[2, 1]]}, features=["ps", "batching"]))
    # PS fed by / feeding an ordinary node (infinite capacities)
    out.append(cfg("ordinary -> ps", fam, [node(c=1), node(c=2, ps=True)],
                   {"A": klass([ARR, None], [[1.0, 0.5], REQ], route=matrix([[0.0, 1.0], [0.0, 0.0]]))}, K=K, features=["ps"]))
    out.append(cfg("ps -> ordinary", fam, [node(c="inf", ps=True), node(c=1)],
                   {"A": klass([ARR, None], [REQ, [1.0, 0.5]], route=matrix([[0.0, 1.0], [0.0, 0.0]]))}, K=K, features=["ps"]))
    out.append(cfg("ps feedback", fam, [node(c=2, ps=True, ps_threshold=2)],
                   {"A": klass([ARR], [[0.5, 1.0]], route=matrix([[0.5]]))}, K=2, T=6.0, D=3 if tier == "quick" else 6, features=["ps"]))
    # PS node re-visited / reached from another PS node while it is at capacity with a waiting line
    out.append(cfg("ps inf -> ps cap=2, external arrivals at both", fam, [node(c="inf", ps=True), node(c=2, ps=True)],
                   {"A": klass([{"values": [0.5, 1.0], "budget": 2}, {"values": [0.25, 0.5], "budget": 3}], [[0.5, 1.0], [3.0, 2.0]],
                               route=matrix([[0.0, 1.0], [0.0, 0.0]]))}, K=2, T=16.0, D=5 if tier == "quick" else 8, features=["ps"]))
    out.append(cfg("ps cap=1 feedback", fam, [node(c=1, ps=True)],
                   {"A": klass([[0.5, 1.0]], [[1.0, 0.5]], route=matrix([[0.5]]))}, K=3, T=8.0, D=4 if tier == "quick" else 7, features=["ps"]))
    out.append(single("ps cap=2 arrivals at t=0", fam, c=2, K=K + 1, arr=[0.0, 0.5, 1.0], srv=[2.0, 1.0, 0.5], nodekw={"ps": True}, D=5 if tier == "quick" else 8, features=["ps", "zero"]))
    out.append(single("ps cap=1 arrivals at t=0", fam, c=1, K=K, arr=[0.0, 0.5], srv=[1.0, 0.5], nodekw={"ps": True}, features=["ps", "zero"]))
    # two priority classes at a limited PS node (not excluded by the quantifier)
    out.append(cfg("ps cap=2 two priority classes", fam, [node(c=2, ps=True)],
                   {"A": klass([ARR], [REQ], prio=1), "B": klass([[1.0, 2.0]], [REQ], prio=0)}, K=2, features=["ps", "priorities"]))
    out.append(cfg("ps cap=2 two classes same priority", fam, [node(c=2, ps=True)],
                   {"A": klass([ARR], [REQ]), "B": klass([[1.0, 2.0]], [REQ])}, K=2, features=["ps"]))
    # waiting room of a capacity-limited PS node: finite queue capacity (rejections) and reneging from the waiting line
    out.append(single("ps cap=1 queue capacity 1 (rejections)", fam, c=1, K=K + 1, arr=[0.25, 0.5, 1.0], srv=[1.0, 2.0, 0.5], nodekw={"ps": True, "cap": 1}, D=5 if tier == "quick" else 8, features=["ps", "capacity"]))
    out.append(single("ps cap=2 R=2 queue capacity 1", fam, c=2, K=K + 1, arr=[0.25, 0.5, 1.0], srv=[1.0, 2.0, 0.5], nodekw={"ps": True, "ps_threshold": 2, "cap": 1}, D=5 if tier == "quick" else 8, features=["ps", "capacity"]))
    out.append(single("ps cap=1 reneging from the waiting line", fam, c=1, K=K, arr=[0.25, 0.5], srv=[1.0, 2.0], nodekw={"ps": True}, classkw={"renege": [[0.5, 1.5]]}, D=5 if tier == "quick" else 8, features=["ps", "reneging"]))
    out.append(single("ps cap=2 reneging from the waiting line", fam, c=2, K=K + 1, arr=[0.25, 0.5, 1.0], srv=[2.0, 1.0, 0.5], nodekw={"ps": True}, classkw={"renege": [[0.5, 1.5]]}, D=5 if tier == "quick" else 7, features=["ps", "reneging"]))
    # round 5: a requirement of zero (valid sample) and a non-integer sharing threshold
    out.append(single("ps cap=inf zero requirement", fam, c="inf", K=K, arr=[0.5, 1.0], srv=[0.0, 1.0, 2.0], nodekw={"ps": True}, features=["ps", "zero"]))
    out.append(single("ps cap=2 zero requirement", fam, c=2, K=K + 1, arr=[0.25, 0.5], srv=[0.0, 1.0, 2.0], nodekw={"ps": True}, D=5 if tier == "quick" else 8, features=["ps", "zero"]))
    out.append(single("ps cap=inf R=1.5 batches", fam, c="inf", K=K - 1, arr=[0.5, 1.5], srv=REQ, nodekw={"ps": True, "ps_threshold": 1.5}, classkw={"batch": [[3, 2]]}, D=5 if tier == "quick" else 8, features=["ps", "batching"]))
    out.append(single("ps cap=3 R=2.5", fam, c=3, K=K + 1, arr=[0.25, 0.5], srv=REQ, nodekw={"ps": True, "ps_threshold": 2.5}, D=5 if tier == "quick" else 8, features=["ps"]))
    return out


SPEC = Spec()
