"""C01 Customer conservation."""
from ..families import *
from .. import universal
from ..history import History, markers


class Monitor(object):
    prop = "C01"

    def violate(self, clause, detail):
        detail["history"] = markers(self.hub)
        self.hub.violate("C01", clause, detail)

    def __init__(self):
        self.validated = 0
        self.exit_ids = []
        self.prevA = 0

    def on_init(self, Q):
        self.check(Q)

    def on_boundary(self, Q):
        self.check(Q)

    def on_end(self, Q, status, exc):
        if Q is not None and status == "ok":
            self.check(Q)
        self.validated = 1

    def check(self, Q):
        hub = self.hub
        A = Q.nodes[0].number_of_individuals
        seen = {}
        total = 0
        for nd in Q.transitive_nodes:
            inds = nd.all_individuals
            if nd.number_of_individuals != len(inds):
                self.violate("population_count", {"node": nd.id_number, "reported": nd.number_of_individuals, "actual": len(inds)})
            total += len(inds)
            for ind in inds:
                i = ind.id_number
                if i in seen:
                    self.violate("duplicated", {"id": i, "places": [seen[i], nd.id_number]})
                seen[i] = nd.id_number
                if ind.node != nd.id_number:
                    self.violate("node_attribute", {"id": i, "ind.node": ind.node, "held_by": nd.id_number})
        ex = Q.nodes[-1]
        exl = ex.all_individuals
        if ex.number_of_individuals != len(exl):
            self.violate("population_count", {"node": -1, "reported": ex.number_of_individuals, "actual": len(exl)})
        ids = [ind.id_number for ind in exl]
        for i in ids:
            if i in seen:
                self.violate("duplicated", {"id": i, "places": [seen[i], -1]})
            seen[i] = -1
        total += len(exl)
        if ids[:len(self.exit_ids)] != self.exit_ids:
            self.violate("exit_not_final", {"before": self.exit_ids, "now": ids})
        self.exit_ids = ids
        if A < self.prevA:
            self.violate("arrival_counter_decreased", {"before": self.prevA, "now": A})
        self.prevA = A
        if len(seen) != A or (A and (min(seen) != 1 or max(seen) != A)):
            missing = sorted(set(range(1, A + 1)) - set(seen))
            extra = sorted(set(seen) - set(range(1, A + 1)))
            self.violate("ids_not_1_to_N", {"arrivals": A, "missing": missing, "unexpected": extra})
        if total != A:
            self.violate("arrivals_ne_nodes_plus_exit", {"arrivals": A, "located": total})
        if A >= 2:
            hub.flags.add("multi")
        if len(exl) >= 1:
            hub.flags.add("exited")


class Spec(object):
    id = "C01"
    rule = ("every execution = one complete answer sequence (inter-arrival/service/batch/patience menus, routing, "
            "tie-breaks) of one configuration; non-trivial = at least two customers were created and at least one "
            "reached the exit; distinct = distinct observation digest (event trace + all records)")
    assumptions = [
        "populations <= K customers per arrival stream, dyadic time menus, horizon T (see coverage.families)",
        "state observed at event boundaries through the public tracker seam (timestamp)",
    ]

    def monitors(self, cfg):
        return [History(), Monitor()]

    def nontrivial(self, cfg, res):
        return "multi" in res.flags and "exited" in res.flags

    def families(self, tier):
        return focused(tier) + universal.family(tier)

    def explicit_families(self, tier):
        return explicit_basic(tier)


def focused(tier):
    K = 3 if tier == "quick" else 4
    out = []
    fam = "F-block"
    for c in ((1, 1), (2, 1), (1, 2)):
        for cap in (0, 1):
            out.append(tandem("block c=%s cap=%s" % (c, cap), fam, c=c, caps=(None, cap), K=K, features=["blocking"]))
    # self loop with blocking and 2-cycle
    out.append(cfg("selfloop", fam, [node(c=1, cap=1)],
                   {"A": klass([ARR], [SRV2], route=matrix([[0.5]]))}, K=K, T=8.0, D=(4 if tier == "quick" else 6), features=["blocking"]))
    out.append(cfg("cycle2", fam, [node(c=1, cap=1), node(c=1, cap=0)],
                   {"A": klass([ARR, None], [SRV2, SRV2], route=matrix([[0.0, 1.0], [0.5, 0.0]]))}, K=K, T=8.0, D=(3 if tier == "quick" else 5), features=["blocking"]))
    fam = "F-preempt"
    for opt in ("resume", "restart", "resample", "reroute"):
        out.append(two_class_single("prio-preempt %s" % opt, fam, c=1, K=2, preempt=opt, prios=(1, 0),
                                    features=["preempt_prio"]))
    for opt in (False, "resume", "reroute"):
        out.append(single("sched-preempt %s" % opt, fam, K=K, T=9.0,
                          c={"sched": {"numbers": [1, 0], "ends": [2.0, 3.0], "preempt": opt}}, features=["schedule"]))
    fam = "F-renege"
    out.append(cfg("renege-jockey", fam, [node(c=1), node(c=1)],
                   {"A": klass([ARR, None], [SRV2, SRV2], renege=[PAT, None],
                               route=network(direct(2, jockey_to=2), leave()))}, K=K, features=["reneging"]))
    fam = "F-batch"
    out.append(single("batch cap1", fam, c=1, K=K, nodekw={"cap": 1}, classkw={"batch": [[2, 1, 0]]}, features=["batching"]))
    fam = "F-ps"
    out.append(single("ps inf", fam, c="inf", K=K, nodekw={"ps": True}, features=["ps"]))
    out.append(single("ps cap2", fam, c=2, K=K, nodekw={"ps": True}, features=["ps"]))
    out += ageing_priorities(tier)
    out += sched_preempt_chain(tier)            # blocked, then interrupted at a shift end, then admitted while interrupted
    out += sched_preempt_two_upstream(tier)
    out += noserver_upstream_block(tier)
    out += per_class_per_node_reneging(tier)
    return out


SPEC = Spec()
