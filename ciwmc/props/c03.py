"""C03 Journey continuity."""
from ..families import *
from .. import universal
from ..history import History, markers


def _isnan(x):
    return isinstance(x, float) and x != x


class Monitor(object):
    prop = "C03"

    def violate(self, clause, detail):
        detail["history"] = markers(self.hub)
        self.hub.violate("C03", clause, detail)

    def __init__(self):
        self.validated = 0
        self.birth = {}       # id -> (t, node)
        self.jockey = {}      # (id, renege instant) -> target node id
        self.pending_arrival = None
        self.A = 0
        self.have_pre = False

    def on_pre_event(self, node, et):
        self.have_pre = True
        if et == "arrival":
            self.pending_arrival = (self.hub.Q.current_time, node.next_node)

    def on_accept(self, node, ind):
        # fallback for exact mode (no pre-event seam): the first acceptance of a new id is its arrival
        if not self.have_pre and ind.id_number not in self.birth and not ind.data_records:
            self.birth[ind.id_number] = (self.hub.Q.current_time, node.id_number)

    def on_route(self, kind, ind, node_id, dest, pre):
        if kind == "jockey":
            self.jockey[(ind.id_number, self.hub.Q.current_time)] = dest.id_number

    def on_boundary(self, Q):
        A = Q.nodes[0].number_of_individuals
        if self.pending_arrival is not None:
            for i in range(self.A + 1, A + 1):
                self.birth[i] = self.pending_arrival
            self.pending_arrival = None
        self.A = A
        self.check(Q)

    def on_end(self, Q, status, exc):
        self.validated = 1

    def leads_to(self, r, ind_id):
        """node the record says the customer went to next (None = unknown / same visit continues)"""
        t = r.record_type
        if t == "service":
            return r.destination
        if t == "interrupted service":
            return None if _isnan(r.destination) else r.destination
        if t == "renege":
            return self.jockey.get((ind_id, r.exit_date), -1)
        return -1

    def check(self, Q):
        hub = self.hub
        for holder, ind in hub.all_customers():
            loc = holder.id_number
            recs = ind.data_records
            i = ind.id_number
            b = self.birth.get(i)
            if len(recs) > 1:
                hub.flags.add("multi_record")
            # ---- first record / no record ---------------------------------------------------------
            if not recs:
                if loc == -1:
                    self.violate("at_exit_without_record", {"id": i})
                elif b is not None and (loc != b[1] or ind.arrival_date != b[0]):
                    self.violate("first_visit_not_at_arrival_node", {"id": i, "born": b, "at": loc, "arrival_date": ind.arrival_date})
                continue
            r1 = recs[0]
            if b is not None and (r1.node != b[1] or r1.arrival_date != b[0]):
                self.violate("first_record_not_at_arrival", {"id": i, "born": b, "record_node": r1.node, "record_arrival": r1.arrival_date})
            # ---- chain ----------------------------------------------------------------------------
            services_in_visit = 0
            for k, r in enumerate(recs):
                t = r.record_type
                last = k == len(recs) - 1
                if t in ("baulk", "rejection"):
                    if len(recs) != 1:
                        self.violate("terminal_record_not_alone", {"id": i, "types": [x.record_type for x in recs]})
                    break
                if t == "service":
                    services_in_visit += 1
                    if services_in_visit > 1:
                        self.violate("two_service_records_in_one_visit", {"id": i, "node": r.node})
                same_visit = (t == "interrupted service" and _isnan(r.destination))
                if not same_visit:
                    services_in_visit = 0
                if t == "renege" and r.destination is not False and not _isnan(r.destination):
                    # a renege record need not name its destination, but a destination it NAMES must be where the customer went
                    went = recs[k + 1].node if not last else loc
                    if went != r.destination:
                        self.violate("renege_record_names_wrong_destination", {"id": i, "node": r.node, "named": r.destination, "went_to": went})
                if last:
                    break
                nx = recs[k + 1]
                if same_visit:
                    if nx.node != r.node or nx.arrival_date != r.arrival_date:
                        self.violate("interrupted_visit_not_continued", {"id": i, "node": r.node, "next_node": nx.node,
                                                                               "arrival": r.arrival_date, "next_arrival": nx.arrival_date})
                else:
                    dest = self.leads_to(r, i)
                    if t == "renege" and (i, r.exit_date) not in self.jockey:
                        dest = None  # target unknown (no router seam): only the instant is checked
                    if dest is not None and nx.node != dest:
                        self.violate("next_record_not_at_destination", {"id": i, "type": t, "node": r.node, "destination": dest, "next_node": nx.node})
                    if nx.arrival_date != r.exit_date:
                        self.violate("next_record_not_at_instant", {"id": i, "type": t, "exit": r.exit_date, "next_arrival": nx.arrival_date})
            # ---- current location vs last record ------------------------------------------------------
            rl = recs[-1]
            t = rl.record_type
            if t == "interrupted service" and _isnan(rl.destination):
                if loc != rl.node:
                    self.violate("location_ne_last_record", {"id": i, "at": loc, "last": t, "record_node": rl.node})
                elif ind.arrival_date != rl.arrival_date:
                    self.violate("visit_restarted_without_record", {"id": i, "node": loc})
            else:
                dest = self.leads_to(rl, i)
                if t == "renege" and (i, rl.exit_date) not in self.jockey:
                    dest = None
                if dest is not None and loc != dest:
                    self.violate("location_ne_last_record", {"id": i, "at": loc, "last": t, "destination": dest})
                if loc != -1 and t in ("service", "interrupted service", "renege") and ind.arrival_date != rl.exit_date:
                    self.violate("current_visit_not_at_instant", {"id": i, "exit": rl.exit_date, "arrival": ind.arrival_date})
                if dest is None and loc == -1 and t not in ("renege",):
                    self.violate("at_exit_but_last_record_not_final", {"id": i, "last": t})


class Spec(object):
    id = "C03"
    rule = ("every execution = one answer sequence of one configuration, record chains of every customer checked after "
            "every event; non-trivial = some customer has at least two records; distinct = distinct observation digest")
    assumptions = [
        "the arrival node and instant of each customer are taken from the arrival event observed at the node_class seam "
        "(exact mode: from the first acceptance)",
        "a renege record is not required to name its destination (unchanged code writes False) but a node it names must be where the customer went; the jockeying target is taken from the router seam",
    ]

    def monitors(self, cfg):
        return [History(), Monitor()]

    def nontrivial(self, cfg, res):
        return "multi_record" in res.flags

    def explicit_families(self, tier):
        # complete state-space closure of the shared small networks (the monitor judges every transition of the graph)
        return explicit_basic(tier)

    def families(self, tier):
        return focused(tier) + universal.family(tier)


def focused(tier):
    from .c01 import focused as f1
    K = 3 if tier == "quick" else 4
    out = [c for c in f1(tier)]
    fam = "F-route"
    nn = 3
    srv = [SRV2, [1.0, 0.5], [1.0]]
    for name, rt in (
        ("cycle", network({"t": "cycle", "cycle": [2, 3, -1]}, leave(), direct(1))),
        ("prob0", network({"t": "prob", "dest": [2, 3], "probs": [0.0, 0.5]}, leave(), {"t": "prob", "dest": [1, 2], "probs": [0.5, 0.5]})),
        ("jsq", network({"t": "jsq", "dest": [2, 3], "tie": "random"}, leave(), leave())),
        ("lb", network({"t": "lb", "dest": [2, 3], "tie": "order"}, leave(), direct(2))),
        ("process", {"t": "process", "routes": [[2, 3], [3, 1], []]}),
        ("flex-all-random", {"t": "flex", "rule": "all", "choice": "random", "routes": [[[2, 3]], [[2, 3], [1]]]}),
        ("flex-any-jsq", {"t": "flex", "rule": "any", "choice": "jsq", "routes": [[[2, 3]], [[2, 3], [1]]]}),
    ):
        out.append(cfg("route " + name, fam, [node(c=1), node(c=1), node(c=1)],
                       {"A": klass([ARR, None, None], srv, route=rt)}, K=K, T=10.0, D=(4 if tier == "quick" else 6), features=["routing"]))
    out += noserver_upstream_block(tier)
    out += sched_preempt_two_upstream(tier)
    out += sched_preempt_chain(tier)
    out += mixed_tandem(tier)
    out += per_class_per_node_reneging(tier)       # reneging at a LATER node of the journey
    out.append(cfg("renege at node 2 with jockeying to node 3", "F-renege", [node(c=1), node(c=1), node(c=1)],
                   {"A": klass([ARR, None, None], [[1.0, 0.5], [3.0, 1.0], [1.0]], renege=[None, PAT, None],
                               route=network(direct(2), leave(jockey_to=3), leave()))}, K=K, T=12.0, D=5 if tier == "quick" else 8,
                   features=["reneging", "jockeying"]))
    # exact arithmetic with shift boundaries that are not binary fractions: every date of the chain must be the SAME Decimal
    for opt in ("reroute", "resume"):
        out.append(cfg("exact=12 sched %s, boundaries 2.1 / 3.3" % opt, "F-exact",
                       [node(c={"sched": {"numbers": [1, 0], "ends": [2.1, 3.3], "preempt": opt}}), node(c=1)],
                       {"A": klass([[0.7, 1.1], None], [[2.3, 1.2], [0.9]], route=matrix([[0.0, 1.0], [0.0, 0.0]]))},
                       K=K, T=9.0, exact=12, features=["exact", "schedule", "preempt_sched"]))
    return out


SPEC = Spec()
