"""C02 Causal monotone time."""
from decimal import Decimal
from math import isinf

from ..families import *
from .. import universal
from ..history import History, markers

NUM = (int, float, Decimal)


def isnum(x):
    return isinstance(x, NUM) and not isinstance(x, bool) and x == x


class Monitor(object):
    prop = "C02"

    def __init__(self, tol=0.0):
        self.validated = 0
        self.tol = tol
        self.prev_t = None
        self.expected_next = None
        self.nrec = 0

    def violate(self, clause, detail):
        detail["after_resume_restart_of_blocked_interrupted_customer"] = bool(markers(self.hub).get("resume_restart_of_blocked_interrupted_customer"))
        detail["history"] = markers(self.hub)
        self.hub.violate("C02", clause, detail)

    # -- helpers --------------------------------------------------------------------------------
    def eq(self, a, b):
        if self.tol:
            return abs(float(a) - float(b)) <= self.tol
        return a == b

    def le(self, a, b):
        if self.tol:
            return float(a) <= float(b) + self.tol
        return a <= b

    def _min_pending(self, Q):
        return min(nd.next_event_date for nd in Q.nodes[:-1])

    def on_init(self, Q):
        self.prev_t = Q.current_time
        self.expected_next = self._min_pending(Q)

    def on_boundary(self, Q):
        hub = self.hub
        now = Q.current_time
        if self.prev_t is not None and now < self.prev_t:
            self.violate("clock_went_back", {"from": self.prev_t, "to": now, "event": hub.cur_event})
        if self.expected_next is not None and not self.eq(now, self.expected_next):
            self.violate("event_not_at_scheduled_date", {"scheduled_min": self.expected_next, "executed_at": now})
        self.prev_t = now
        self.expected_next = self._min_pending(Q)
        # nothing scheduled in the past
        for nd in Q.nodes[:-1]:
            if nd.next_event_date < now and not self.eq(nd.next_event_date, now):
                self.violate("scheduled_in_past", {"what": "node.next_event_date", "node": getattr(nd, "id_number", 0),
                                                         "type": getattr(nd, "next_event_type", "arrival"),
                                                         "date": nd.next_event_date, "now": now})
        an = Q.nodes[0]
        for n_id, row in an.event_dates_dict.items():
            for cl, d in row.items():
                if d < now and not self.eq(d, now):
                    self.violate("scheduled_in_past", {"what": "arrival", "node": n_id, "class": cl, "date": d, "now": now})
        for nd in Q.transitive_nodes:
            ps = hasattr(nd, "ps_capacity")
            finite = (not ps) and (not isinf(nd.c)) and (not nd.slotted)
            if finite:
                # pending end-of-service events are the servers' dates (server-side view; a customer interrupted by
                # a shift end may legitimately keep a stale reference to a dismissed server)
                held = set()
                for srv in nd.servers:
                    d = srv.next_end_service_date
                    if srv.cust:
                        held.add(srv.cust.id_number)
                        st = srv.cust.service_start_date
                        if st is not False and not srv.cust.interrupted and st > now and not self.eq(st, now):
                            self.violate("service_start_in_future", {"node": nd.id_number, "id": srv.cust.id_number, "service_start_date": st, "now": now})
                    if d < now and not self.eq(d, now):
                        self.violate("scheduled_in_past", {"what": "server.next_end_service_date", "node": nd.id_number,
                                                            "server": srv.id_number, "date": d, "now": now})
            for ind in nd.all_individuals:
                if finite:
                    insvc = ind.id_number in held
                else:
                    insvc = ind.with_server if ps else (ind.server if not isinf(nd.c) else True)
                    if insvc and not ind.is_blocked and not ind.interrupted:
                        d = ind.service_end_date
                        if d is not False and d < now and not self.eq(d, now):
                            self.violate("scheduled_in_past", {"what": "service_end_date", "node": nd.id_number,
                                                                "id": ind.id_number, "date": d, "now": now})
                if not insvc and finite and not ind.server:
                    if nd.reneging:
                        d = getattr(ind, "reneging_date", None)
                        if d is not None and d < now and not self.eq(d, now):
                            self.violate("scheduled_in_past", {"what": "reneging_date", "node": nd.id_number,
                                                                "id": ind.id_number, "date": d, "now": now})
                    if nd.dynamic_classes:
                        d = getattr(ind, "class_change_date", None)
                        if d is not None and d < now and not self.eq(d, now):
                            self.violate("scheduled_in_past", {"what": "class_change_date", "node": nd.id_number,
                                                                "id": ind.id_number, "date": d, "now": now})
        for ind, r in hub.new_records():
            self.record(r, now)

    def record(self, r, now):
        hub = self.hub
        self.nrec += 1
        t = r.record_type
        bad = None
        a, s, e, x = r.arrival_date, r.service_start_date, r.service_end_date, r.exit_date
        if t == "service":
            if not (isnum(a) and isnum(s) and isnum(e) and isnum(x)):
                bad = "date_fields_not_numbers"
            elif not (self.le(a, s) and self.le(s, e) and self.le(e, x)):
                bad = "service_dates_out_of_order"
            elif not self.eq(x, now):
                bad = "exit_date_ne_clock"
            elif not (isnum(r.waiting_time) and isnum(r.service_time) and isnum(r.time_blocked)):
                bad = "durations_not_numbers"
            elif not (self.eq(r.waiting_time, s - a) and self.eq(r.service_time, e - s) and self.eq(r.time_blocked, x - e)):
                bad = "durations_ne_differences"
            elif not (r.waiting_time >= -self.tol and r.service_time >= -self.tol and r.time_blocked >= -self.tol):
                bad = "negative_duration"
        elif t == "interrupted service":
            if not (isnum(a) and isnum(s) and isnum(x)):
                bad = "date_fields_not_numbers"
            elif not (self.le(a, s) and self.le(s, x)):
                bad = "interrupted_dates_out_of_order"
            elif not self.eq(x, now):
                bad = "exit_date_ne_clock"
            elif not (isnum(r.waiting_time) and self.eq(r.waiting_time, s - a)):
                bad = "durations_ne_differences"
            elif not (isnum(r.service_time) and r.service_time >= 0):
                # (no upper bound on exit - start: a customer that is blocked when a pre-emptive shift ends is
                #  legitimately interrupted after its intended end of service - pinned by the repository's suite)
                bad = "interrupted_service_time_negative"
        elif t == "renege":
            if not (isnum(a) and isnum(x)):
                bad = "date_fields_not_numbers"
            elif not self.le(a, x):
                bad = "renege_dates_out_of_order"
            elif not self.eq(x, now):
                bad = "exit_date_ne_clock"
            elif not (isnum(r.waiting_time) and self.eq(r.waiting_time, x - a)):
                bad = "durations_ne_differences"
        elif t in ("baulk", "rejection"):
            if not (isnum(a) and isnum(x)):
                bad = "date_fields_not_numbers"
            elif not (self.eq(a, x) and self.eq(x, now)):
                bad = "baulk_rejection_not_instant"
        else:
            bad = "unknown_record_type"
        if bad:
            self.violate(bad, {"record_type": t, "node": r.node, "id": r.id_number, "now": now,
                                     "record": [hub_js(v) for v in r]})

    def on_end(self, Q, status, exc):
        self.validated = 1
        if self.nrec:
            self.hub.flags.add("records")
        if self.hub.nevents >= 3:
            self.hub.flags.add("events3")


def hub_js(v):
    from ..harness import _js
    return _js(v)


def _tol(cfg):
    if any(n.get("ps") for n in cfg["nodes"]):
        return 1e-9
    return 0.0


class Spec(object):
    id = "C02"
    rule = ("every execution = one complete answer sequence of one configuration; non-trivial = at least three events "
            "executed and at least one data record written; distinct = distinct observation digest")
    assumptions = [
        "dyadic menus make float arithmetic exact, so record identities are compared with == (1e-9 only at PS nodes)",
        "non-negative samples only (the statement's proviso)",
        "pending dates read from node.next_event_date, the arrival node's date table, service_end_date of customers in "
        "service and reneging/class-change dates of waiting customers",
    ]

    def monitors(self, cfg):
        return [History(), Monitor(_tol(cfg))]

    def nontrivial(self, cfg, res):
        return "records" in res.flags and "events3" in res.flags

    def explicit_families(self, tier):
        # complete state-space closure of the shared small networks (the monitor judges every transition of the graph)
        return explicit_basic(tier)

    def families(self, tier):
        return focused(tier) + universal.family(tier)


def focused(tier):
    K = 3 if tier == "quick" else 4
    out = []
    fam = "F-tie"   # every duration equal: every event is a tie
    out.append(single("tie c1", fam, c=1, K=K, arr=[1.0], srv=[1.0], features=["ties"]))
    out.append(tandem("tie tandem", fam, c=(1, 1), caps=(None, 0), K=K, arr=[1.0], srv=[[1.0], [1.0]], features=["ties", "blocking"]))
    out.append(cfg("tie 2streams", fam, [node(c=1), node(c=1)],
                   {"A": klass([[1.0], [1.0]], [[1.0], [1.0, 2.0]], route=matrix([[0.0, 1.0], [0.0, 0.0]]))}, K=K - 1,
                   features=["ties"]))
    # near ties: dates that differ by one unit in the last place (0.15 + 0.15 = 0.3 < 0.1 + 0.2) at DIFFERENT nodes
    for a1, s1, a2, s2 in ((0.15, 0.15, 0.1, 0.2), (0.1, 0.2, 0.15, 0.15), (0.1, 0.7, 0.3, 0.5)):
        out.append(cfg("near tie %s+%s vs %s+%s" % (a1, s1, a2, s2), "F-near-tie", [node(c=1), node(c=1)],
                       {"A": klass([{"script": [a1, 1.0e9]}, {"script": [a2, 1.0e9]}], [[s1, 1.0], [s2]], route=matrix([[0.0, 0.0], [1.0, 0.0]]))},
                       K=None, T=4.0, features=["near_ties"]))
    # the waiting customer with the earliest timed class change reneges first; others keep their pending changes
    out.append(cfg("renege of the next class-change candidate, then a quiet period", "F-renege-cct", [node(c=1)],
                   {"A": klass([{"script": [0.5, 0.5, 0.5, 5.0, 1.0e9]}], [[8.0, 3.0]], prio=1, renege=[[1.0, 9.0]], cct={"B": [2.0, 3.0]}),
                    "B": klass([None], [[8.0, 3.0]], prio=0, renege=[[9.0]])},
                   K=None, T=12.0, features=["reneging", "cct"]))
    fam = "F-zero"
    out.append(single("zero service", fam, c=1, K=K, arr=[0.0, 1.0], srv=[0.0, 1.0], features=["zero"]))
    out.append(tandem("zero tandem", fam, c=(1, 1), caps=(None, 0), K=K, arr=[0.0, 1.0], srv=[[0.0, 1.0], [1.0, 0.0]], features=["zero", "blocking"]))
    fam = "F-preempt-renege"
    for opt in ("resume", "restart", "resample"):
        out.append(two_class_single("preempt %s + renege" % opt, fam, c=1, K=2, preempt=opt, prios=(1, 0),
                                    arrA=[0.5], srvA=[4.0, 1.0], arrB=[1.5, 3.0], srvB=[0.5, 2.0],
                                    ckwA={"renege": [[1.5, 3.0]]}, ckwB={"renege": [None]}, T=12.0,
                                    features=["preempt_prio", "reneging"]))
    fam = "F-sched-preempt-block"
    for opt in ("resume", "restart", "resample"):
        out.append(tandem("sched %s + block" % opt, fam, c=({"sched": {"numbers": [1, 0], "ends": [2.0, 3.0], "preempt": opt}}, 1),
                          caps=(None, 0), K=K, T=9.0, features=["schedule", "blocking"]))
    fam = "F-sched-renege"
    for opt in (False, "resume"):
        out.append(single("sched %s + renege" % opt, fam, K=K, T=9.0,
                          c={"sched": {"numbers": [1, 0], "ends": [2.0, 3.0], "preempt": opt}},
                          classkw={"renege": [[1.0, 2.5]]}, features=["schedule", "reneging"]))
    fam = "F-slotted"
    for cap, opt in ((False, False), (True, False), (True, "resume")):
        out.append(single("slotted %s %s arrivals at 0" % (cap, opt), fam, K=K, T=8.0, arr=[0.0, 1.0], srv=[0.5, 2.0],
                          c={"slotted": {"slots": [1.0, 2.0], "sizes": [1, 2], "capacitated": cap, "preempt": opt}},
                          features=["slotted"]))
    out += sched_preempt_chain(tier)
    out += ageing_priorities(tier)
    out += per_class_per_node_reneging(tier)
    out += mixed_tandem(tier)
    return out


SPEC = Spec()
