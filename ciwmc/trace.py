"""Developer tool: run one execution and print its trace.
python -m ciwmc.trace C14 quick 'U-T2[cap1+sched]' '[0,0,1]'"""
import sys, os, json, importlib
from . import harness, explore


def main():
    pid, tier, name, choices = sys.argv[1], sys.argv[2], sys.argv[3], json.loads(sys.argv[4])
    spec = importlib.import_module("ciwmc.props." + pid.lower()).SPEC
    cfg = next(c for c in spec.families(tier) if c["name"] == name)
    print(json.dumps(cfg, default=str))
    res = harness.run(cfg, tuple(choices), list(spec.monitors(cfg)), keep_Q=True)
    print("status", res.status)
    print("choices", list(zip(res.tags, res.arity, res.choices)))
    for e in res.events:
        print("  event", e)
    for s in res.samples:
        print("  sample", s)
    if res.exception:
        print(res.exception[2])
    for v in res.violations:
        print("VIOLATION", v.as_dict())
    if res.Q is not None:
        for nd in res.Q.nodes[1:]:
            for ind in nd.all_individuals:
                for r in ind.data_records:
                    print("  rec", tuple(r))


main()
