"""Universal combinatorial family U (DESIGN §5): every documented feature alone, in all compatible
pairs (and triples in the thorough tier) on three base topologies, explored with a deviation bound."""
import copy
import itertools

from .families import *

# ------------------------------------------------------------------------------------------------
# base topologies: class A arrives at node 1
# ------------------------------------------------------------------------------------------------


def _base(topo, K, T, D):
    if topo == "T1":
        nodes = [node(c=1)]
        route = None
        arr = [ARR]
        srv = [SRV2]
    elif topo == "T2":
        nodes = [node(c=1), node(c=1)]
        route = matrix([[0.0, 1.0], [0.5, 0.0]])
        arr = [ARR, None]
        srv = [SRV2, [1.0, 0.5]]
    else:
        nodes = [node(c=1), node(c=1), node(c=1)]
        route = matrix([[0.0, 0.5, 0.5], [0.0, 0.0, 0.0], [0.5, 0.0, 0.0]])
        arr = [ARR, None, None]
        srv = [SRV2, [1.0, 0.5], [1.0]]
    c = cfg("U-%s" % topo, "U", nodes, {"A": klass(arr, srv, route=route)}, K=K, T=T, D=D)
    c["_topo"] = topo
    c["_kinds"] = {}
    return c


def _nn(c):
    return len(c["nodes"])


def _claim(c, kind, name):
    """one atom per kind (server kind, capacity, routing, tracker, discipline, ...)"""
    if kind in c["_kinds"]:
        return False
    c["_kinds"][kind] = name
    return True


def _add_B(c, prio=0, arr=None):
    if "B" in c["classes"]:
        return
    A = c["classes"]["A"]
    nn = _nn(c)
    B = klass([arr or [1.0, 2.0]] + [None] * (nn - 1), [list(m) for m in A["srv"]], route=copy.deepcopy(A.get("route")), prio=prio)
    for k in ("batch", "baulk"):
        if k in A:
            B[k] = [None] * nn
    if "renege" in A:
        B["renege"] = copy.deepcopy(A["renege"])
    c["classes"]["B"] = B


def _ordinary(n):
    """finite c>0 ordinary node (pre-emption etc. make sense)"""
    return isinstance(n["c"], int) and n["c"] > 0 and not n.get("ps")


# ---- atoms: each returns True (applied) / False (incompatible) --------------------------------------

def a_class2(c):
    if not _claim(c, "classes", "class2"):
        return False
    _add_B(c)
    return True


def a_prio(c):
    if not _claim(c, "classes", "prio"):
        return False
    _add_B(c, prio=1)
    return True


def _a_preempt(opt):
    def f(c):
        if not _claim(c, "classes", "preempt"):
            return False
        if not all(_ordinary(n) or isinstance(n["c"], dict) and "sched" in n["c"] for n in c["nodes"]):
            return False
        _add_B(c, prio=0)
        c["classes"]["A"]["prio"] = 1
        for n in c["nodes"]:
            n["preempt"] = opt
        return True
    return f


def a_baulk(c):
    if not _claim(c, "baulk", "baulk"):
        return False
    nn = _nn(c)
    for cl in c["classes"].values():
        cl["baulk"] = [None] * nn
    c["classes"]["A"]["baulk"] = [{"by_n": [0.0, 0.5, 1.0]}] + [None] * (nn - 1)
    return True


def a_renege(c):
    if not _claim(c, "renege", "renege"):
        return False
    nn = _nn(c)
    for cl in c["classes"].values():
        cl["renege"] = [None] * nn
    for cl in c["classes"].values():
        cl["renege"] = [PAT] * nn          # every class reneges (a class without patience is covered by the C13 families)
    return True


def a_jockey(c):
    if _nn(c) < 2 or not _claim(c, "renege", "jockey") or not _claim(c, "routing", "jockey"):
        return False
    nn = _nn(c)
    for cl in c["classes"].values():
        cl["renege"] = [None] * nn
    c["classes"]["A"]["renege"] = [PAT] + [None] * (nn - 1)
    rt = network(direct(2, jockey_to=2), *[leave() for _ in range(nn - 1)])
    for cl in c["classes"].values():
        cl["route"] = copy.deepcopy(rt)
    return True


def a_batch(c):
    if not _claim(c, "batch", "batch"):
        return False
    nn = _nn(c)
    for cl in c["classes"].values():
        cl["batch"] = [None] * nn
    c["classes"]["A"]["batch"] = [[2, 1, 0]] + [None] * (nn - 1)
    return True


def a_ccm(c):
    if not _claim(c, "ccm", "ccm"):
        return False
    _add_B(c, prio=c["classes"].get("B", {}).get("prio", 0))
    for n in c["nodes"]:
        n["class_change"] = {"A": {"A": 0.0, "B": 1.0}, "B": {"A": 0.5, "B": 0.5}}   # default answer = the class changes
    return True


def _a_cct(prio_change):
    def f(c):
        if not _claim(c, "cct", "cct"):
            return False
        if prio_change and "B" in c["classes"] and c["classes"]["B"].get("prio", 0) == c["classes"]["A"].get("prio", 0):
            return False
        if "B" not in c["classes"]:
            if prio_change:
                _add_B(c, prio=0)
                c["classes"]["A"]["prio"] = 1
            else:
                _add_B(c)
        c["classes"]["A"]["cct"] = {"B": [0.5, 1.5]}
        return True
    return f


def a_process(c):
    if not _claim(c, "routing", "process"):
        return False
    routes = [[], [1]] if _nn(c) == 1 else [[2], [], [2, 1, 2]]
    for cl in c["classes"].values():
        cl["route"] = {"t": "process", "routes": routes}
    return True


def _a_flex(rule, choice):
    def f(c):
        if _nn(c) < 2 or not _claim(c, "routing", "flex"):
            return False
        nn = _nn(c)
        others = list(range(1, nn + 1))
        routes = [[others[1:]], [others, [1]], []]
        for cl in c["classes"].values():
            cl["route"] = {"t": "flex", "rule": rule, "choice": choice, "routes": routes}
        return True
    return f


def _a_net(kind):
    def f(c):
        nn = _nn(c)
        if nn < 2 or not _claim(c, "routing", "net_" + kind):
            return False
        dests = list(range(2, nn + 1))
        if kind == "direct":
            first = direct(2)
        elif kind == "cycle":
            first = {"t": "cycle", "cycle": dests + [-1]}
        elif kind == "prob":
            first = {"t": "prob", "dest": dests, "probs": [0.5] + [0.0] * (len(dests) - 1)}
        elif kind == "jsq":
            first = {"t": "jsq", "dest": (dests + [1]) if nn == 2 else dests, "tie": "random"}
        elif kind == "jsq_order":
            first = {"t": "jsq", "dest": (dests + [1]) if nn == 2 else dests, "tie": "order"}
        else:
            first = {"t": "lb", "dest": dests + [1], "tie": "random"}
        rest = [{"t": "prob", "dest": [1], "probs": [0.5]}] + [leave() for _ in range(nn - 2)]
        for cl in c["classes"].values():
            cl["route"] = network(first, *rest)
        return True
    return f


def _a_cap(k):
    def f(c):
        if not _claim(c, "cap", "cap%d" % k):
            return False
        for n in c["nodes"]:
            n["cap"] = k
        return True
    return f


def a_arr0(c):
    """first arrivals at clock 0.0 (0.0 is falsy: start/arrival dates equal to zero are a classic trap)"""
    if not _claim(c, "arr0", "arr0"):
        return False
    c["classes"]["A"]["arr"][0] = [0.0, 0.5]
    return True


def a_syscap(c):
    if not _claim(c, "syscap", "syscap"):
        return False
    c["system_capacity"] = 2
    return True


def _a_servers(name, spec, ps=False, thr=None):
    def f(c):
        if not _claim(c, "servers", name):
            return False
        if "preempt" in c["_kinds"].values() and not (isinstance(spec, int) and spec > 0 and not ps):
            if not (isinstance(spec, dict) and "sched" in spec):
                return False
        for n in c["nodes"]:
            n["c"] = copy.deepcopy(spec)
            if ps:
                n["ps"] = True
                if thr:
                    n["ps_threshold"] = thr
        return True
    return f


def a_srvprio(c):
    if not _claim(c, "srvprio", "srvprio"):
        return False
    for n in c["nodes"]:
        if not isinstance(n["c"], int):
            return False
        n["c"] = max(n["c"], 2)
        n["server_priority"] = "last"
    return True


def _a_disc(name):
    def f(c):
        if not _claim(c, "discipline", name):
            return False
        for n in c["nodes"]:
            n["discipline"] = name
        return True
    return f


def _a_tracker(name):
    def f(c):
        if not _claim(c, "tracker", name):
            return False
        nn = _nn(c)
        if name == "NodePopulationSubset":
            c["tracker"] = [name, {"observed_nodes": [0] if nn == 1 else [1, 0]}]
        elif name == "GroupedNodePopulation":
            c["tracker"] = [name, {"groups": [[0]] if nn == 1 else [[0], list(range(1, nn))]}]
        else:
            c["tracker"] = name
        return True
    return f


def a_digraph(c):
    if not _claim(c, "detector", "digraph"):
        return False
    c["detector"] = "StateDigraph"
    return True


def a_exact(c):
    if not _claim(c, "exact", "exact"):
        return False
    c["exact"] = 12
    return True


SCHED = {"numbers": [1, 0, 2], "ends": [1.5, 2.5, 4.0], "offset": 0.5}
SLOT = {"slots": [1.0, 1.5, 3.0], "sizes": [1, 2, 1]}


def _sched(opt):
    d = dict(SCHED)
    d["preempt"] = opt
    return {"sched": d}


def _slot(cap, opt):
    d = dict(SLOT)
    d["capacitated"] = cap
    d["preempt"] = opt
    return {"slotted": d}


ATOMS = [
    ("class2", a_class2), ("prio", a_prio),
    ("preempt_resume", _a_preempt("resume")), ("preempt_restart", _a_preempt("restart")),
    ("preempt_resample", _a_preempt("resample")), ("preempt_reroute", _a_preempt("reroute")),
    ("baulk", a_baulk), ("renege", a_renege), ("jockey", a_jockey), ("batch", a_batch),
    ("ccm", a_ccm), ("cct", _a_cct(False)), ("cct_prio", _a_cct(True)),
    ("process", a_process), ("flex_any_jsq", _a_flex("any", "jsq")), ("flex_all_random", _a_flex("all", "random")),
    ("flex_any_lb", _a_flex("any", "lb")),
    ("net_direct", _a_net("direct")), ("net_cycle", _a_net("cycle")), ("net_prob", _a_net("prob")),
    ("net_jsq", _a_net("jsq")), ("net_jsq_order", _a_net("jsq_order")), ("net_lb", _a_net("lb")),
    ("cap0", _a_cap(0)), ("cap1", _a_cap(1)), ("syscap", a_syscap), ("arr0", a_arr0),
    ("c2", _a_servers("c2", 2)), ("c0", _a_servers("c0", 0)), ("cinf", _a_servers("cinf", "inf")),
    ("sched", _a_servers("sched", _sched(False))), ("sched_resume", _a_servers("sched_resume", _sched("resume"))),
    ("sched_restart", _a_servers("sched_restart", _sched("restart"))),
    ("sched_resample", _a_servers("sched_resample", _sched("resample"))),
    ("sched_reroute", _a_servers("sched_reroute", _sched("reroute"))),
    ("slotted", _a_servers("slotted", _slot(False, False))), ("slotted_cap", _a_servers("slotted_cap", _slot(True, False))),
    ("slotted_cap_resume", _a_servers("slotted_cap_resume", _slot(True, "resume"))),
    ("slotted_cap_restart", _a_servers("slotted_cap_restart", _slot(True, "restart"))),
    ("slotted_cap_resample", _a_servers("slotted_cap_resample", _slot(True, "resample"))),
    ("ps_inf", _a_servers("ps_inf", "inf", ps=True)), ("ps_cap2_thr2", _a_servers("ps_cap2_thr2", 2, ps=True, thr=2)),
    ("srvprio", a_srvprio), ("LIFO", _a_disc("LIFO")), ("SIRO", _a_disc("SIRO")),
    ("trk_SystemPopulation", _a_tracker("SystemPopulation")), ("trk_NodePopulation", _a_tracker("NodePopulation")),
    ("trk_NodePopulationSubset", _a_tracker("NodePopulationSubset")),
    ("trk_GroupedNodePopulation", _a_tracker("GroupedNodePopulation")),
    ("trk_NodeClassMatrix", _a_tracker("NodeClassMatrix")), ("trk_NaiveBlocking", _a_tracker("NaiveBlocking")),
    ("trk_MatrixBlocking", _a_tracker("MatrixBlocking")),
    ("digraph", a_digraph), ("exact", a_exact),
]
ATOM = dict(ATOMS)

# Combinations the documentation does not present as supported (not "valid networks" for C14):
#  - priority pre-emption at nodes that are not ordinary finite-server nodes (handled in the atoms)
#  - exact arithmetic with PS nodes (Simulation(exact=) replaces every node class by ExactNode)
#  - customers of a class with no service at a PS node etc. are not generated at all


def _incompatible(names, c):
    s = set(names)
    if "exact" in s and any(n.startswith("ps_") for n in s):
        return True
    if "srvprio" in s and any(n.startswith(("slotted", "ps_", "cinf", "c0")) for n in s):
        return True
    # pre-emptive priorities need ordinary nodes (checked again after all atoms are applied)
    if any(n.startswith("preempt_") for n in s):
        for nd in c["nodes"]:
            if not (_ordinary(nd) or (isinstance(nd["c"], dict) and "sched" in nd["c"])):
                return True
    # JSQ/LB and flexible routing read number_in_service / populations of destination nodes: fine everywhere
    return False


def make(topo, names, K, T, D):
    c = _base(topo, K, T, D)
    for nm in names:
        if not ATOM[nm](c):
            return None
    if _incompatible(names, c):
        return None
    c["name"] = "U-%s[%s]" % (topo, "+".join(names))
    c["features"] = sorted(names)
    del c["_kinds"]
    del c["_topo"]
    return c


def family(tier, entry=None):
    out = []
    names = [n for n, _ in ATOMS]
    if tier == "quick":
        K, T, D = 3, 6.0, 2
        plan = [("T1", 1), ("T2", 1), ("T3", 1), ("T1", 2), ("T2", 2)]
    else:
        K, T, D = 3, 6.0, 3
        plan = [("T1", 1), ("T2", 1), ("T3", 1), ("T1", 2), ("T2", 2), ("T3", 2), ("T1", 3)]
    seen = set()
    for topo, r in plan:
        for combo in itertools.combinations(names, r):
            c = make(topo, combo, K, T, D)
            if c is None:
                continue
            if entry is not None:
                c["entry"] = list(entry)
            out.append(c)
    # triples of the most interacting atoms on the 2-node topology (a defect found late - D20 - needed exactly such a
    # triple: priorities + class-change matrix + reneging on two nodes)
    core = CORE if tier == "quick" else CORE + CORE_THOROUGH
    for combo in itertools.combinations([n for n in names if n in core], 3):
        c = make("T2", combo, K, T, D)
        if c is None:
            continue
        if entry is not None:
            c["entry"] = list(entry)
        out.append(c)
    return out


CORE = ["prio", "preempt_resume", "preempt_reroute", "renege", "ccm", "cct_prio", "cap1", "sched", "sched_resume",
        "slotted_cap_resume", "batch", "baulk", "c2", "LIFO"]
CORE_THOROUGH = ["arr0", "preempt_restart", "jockey", "cct", "cap0", "syscap", "sched_reroute", "sched_restart", "slotted", "net_jsq", "process",
                 "srvprio", "SIRO", "trk_NaiveBlocking", "trk_NodeClassMatrix"]


def subset(tier, include, exclude=(), **extra):
    """configurations of U whose feature names contain one of `include` and none of `exclude` (exact mode is always
    excluded here: the exact-mode properties have their own families and most seams need the node_class seam)"""
    out = []
    for c in family(tier):
        names = " ".join(c["features"])
        if not any(f in names for f in include):
            continue
        if any(e in names for e in tuple(exclude) + ("exact",)):
            continue
        c = dict(c)
        c.update(extra)
        c["family"] = "U-subset"
        out.append(c)
    return out
