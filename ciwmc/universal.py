"""Universal combinatorial family U (DESIGN §5)."""


def family(tier):
    return []
