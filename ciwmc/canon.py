"""Canonical form of the engine state at an event boundary (DESIGN §3.3).

Dates are taken relative to the clock, customer ids are renamed by rank among the customers
present in service nodes, statistics/records/exit contents are dropped.  Used for state/transition
accounting by the stateless engine and as the deduplication key of the explicit-state engine.
"""
from math import isinf

import hashlib

INF = float("inf")


SHIFT = 1000003.0


def digest(obj):
    """64-bit digest of a canonical tuple.  Python's hash(-1.0) == hash(-2.0) == -2 (also for ints), so states that
    differ only in such an offset would collide systematically; canon() therefore shifts every relative date by
    SHIFT (an injective re-encoding), after which the built-in tuple hash is adequate and fast."""
    return hash(obj)


def _rel(d, now):
    # bool / False markers and strings ('resume' ...) are kept; numbers become offsets from the clock
    if d is False or d is True or d is None or isinstance(d, str):
        return d
    try:
        if d != d:
            return "nan"
        if d == INF:
            return INF
        return float(d) - now + SHIFT
    except TypeError:
        return repr(d)


def _num(d):
    if d is False or d is True or d is None or isinstance(d, str):
        return d
    try:
        if d != d:
            return "nan"
        return float(d)
    except TypeError:
        return repr(d)


def canon(Q, now=None, with_tracker=True):
    if now is None:
        now = Q.current_time
    now = float(now)
    ids = sorted(ind.id_number for nd in Q.transitive_nodes for ind in nd.all_individuals)
    rank = {i: k for k, i in enumerate(ids)}
    out = []
    an = Q.nodes[0]
    streams = []
    for nd in sorted(an.event_dates_dict):
        for cl in sorted(an.event_dates_dict[nd]):
            d = an.event_dates_dict[nd][cl]
            dist = Q.inter_arrival_times[nd][cl]
            left = None
            if dist is not None and getattr(dist, "budget", None) is not None:
                left = max(dist.budget - dist.n, -1)
            streams.append((_rel(d, now), left))
    out.append(tuple(streams))
    for node in Q.transitive_nodes:
        inds = []
        for plist in node.individuals:
            pl = []
            for ind in plist:
                srv = ind.server
                if srv is not False and srv is not True and srv is not None:
                    srv = ("S", node.servers.index(srv) if srv in node.servers else -1) if hasattr(node, "servers") else "S"
                route = getattr(ind, "route", None)
                if route is not None:
                    route = repr(route)
                pl.append((
                    rank[ind.id_number], ind.customer_class, ind.priority_class, ind.prev_priority_class,
                    ind.previous_class,
                    _rel(ind.arrival_date, now), _rel(ind.service_start_date, now), _rel(ind.service_end_date, now),
                    _num(ind.service_time), ind.is_blocked, ind.destination, srv, ind.interrupted,
                    _rel(getattr(ind, "reneging_date", None), now), _rel(getattr(ind, "class_change_date", None), now),
                    getattr(ind, "next_class", None),
                    _num(getattr(ind, "time_left", None)) if (ind.interrupted or ind.service_time in ("resume",) or hasattr(ind, "with_server")) else None,
                    _num(getattr(ind, "original_service_time", None)) if (ind.interrupted or isinstance(ind.service_time, str)) else None,
                    getattr(ind, "with_server", None), _rel(getattr(ind, "date_last_update", None), now),
                    route,
                ))
            inds.append(tuple(pl))
        servers = None
        if hasattr(node, "servers") and not isinf(node.c):
            servers = tuple(
                (s.busy, s.offduty, rank.get(s.cust.id_number, -1) if s.cust else None, _rel(s.next_end_service_date, now))
                for s in node.servers)
        sched = None
        if node.schedule is not None:
            sch = node.schedule
            if sch.schedule_type == "schedule":
                sched = (_rel(node.next_shift_change, now), sch.c, sch.next_c, float((now - sch.offset) % sch.cyclelength) if now >= sch.offset else float(now - sch.offset))
            else:
                sched = (_rel(sch.next_slot_date, now), sch.slot_size, float((now - sch.offset) % sch.cyclelength) if now >= sch.offset else float(now - sch.offset))
        out.append((
            tuple(inds), servers, sched,
            node.c if not isinf(node.c) else INF, node.number_of_individuals, node.number_in_service,
            tuple((a, rank.get(b, -1)) for a, b in node.blocked_queue), node.len_blocked_queue,
            tuple(rank.get(i.id_number, -1) for i in node.interrupted_individuals), node.number_interrupted_individuals,
            _rel(node.next_event_date, now), node.next_event_type,
            getattr(node, "last_occupancy", None),
        ))
    if with_tracker:
        try:
            out.append(Q.statetracker.hash_state())
        except Exception:
            out.append("?")
    g = getattr(Q.deadlock_detector, "statedigraph", None)
    if g is not None:
        out.append(tuple(sorted(g.edges())))
    return tuple(out)


def norm_record(r):
    return tuple("nan" if (isinstance(x, float) and x != x) else (float(x) if hasattr(x, "as_tuple") else x) for x in r)


def observation(Q, events):
    """Hashable rendering of everything observable of a finished execution."""
    recs = []
    if Q is not None:
        for nd in Q.nodes[1:]:
            for ind in nd.all_individuals:
                for r in ind.data_records:
                    recs.append(norm_record(r))
    return (tuple((float(t), n, e) for t, n, e in events), tuple(recs),
            float(Q.current_time) if Q is not None else None)
