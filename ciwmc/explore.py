"""Stateless depth-first enumeration of environment answers with deviation bounding (DESIGN §3.1),
parallelised over a fork-once worker pool, with state/transition accounting and replay checks."""
import os
import sys
import time
import json
import hashlib
import multiprocessing as mp

from . import env
from . import harness
from .canon import canon, observation, digest as state_digest

INF = float("inf")
NWORKERS = int(os.environ.get("CIWMC_WORKERS", "0")) or min(16, os.cpu_count() or 1)
CHUNK = 1200
MAX_DEPTH = 90
DEFAULT_CAP = 300000


class Accounting(object):
    """Built-in monitor: canonical states and labelled transitions of every execution."""

    def __init__(self, acc):
        self.acc = acc

    def on_init(self, Q):
        h = state_digest(canon(Q))
        self.prev = h
        self.k = len(self.hub.ctx.choices)
        self.acc.add_state(h)

    def on_boundary(self, Q):
        h = state_digest(canon(Q))
        ctx = self.hub.ctx
        label = (self.hub.cur_event[1], self.hub.cur_event[2], tuple(ctx.choices[self.k:]))
        self.acc.add_transition(state_digest((self.prev, label, h)))
        self.acc.add_state(h)
        self.prev = h
        self.k = len(ctx.choices)


class Acc(object):
    """Per-process accumulators; `delta()` returns what was not yet reported to the parent."""

    def __init__(self):
        self.states = set()
        self.transitions = set()
        self.obs = set()
        self.nontrivial = set()
        self.endstates = set()
        self._new = {"states": [], "transitions": [], "obs": [], "nontrivial": [], "endstates": []}

    def _add(self, name, h):
        s = getattr(self, name)
        if h not in s:
            s.add(h)
            self._new[name].append(h)

    def add_state(self, h):
        self._add("states", h)

    def add_transition(self, h):
        self._add("transitions", h)

    def delta(self):
        d = self._new
        self._new = {k: [] for k in d}
        return d


ACC = Acc()
SPEC = None
CFGS = None
OPTS = {}
FINDINGS = {"findings": []}


def load_findings():
    p = os.environ.get("CIWMC_FINDINGS") or os.path.join(os.path.dirname(os.path.dirname(os.path.abspath(__file__))), "KNOWN_FINDINGS.json")
    if not os.path.exists(p):
        return {"findings": [], "fixed": []}
    return json.load(open(p))


def match_finding(findings, prop, vrec, cfg):
    """A listed finding suppresses exactly the violations its trigger predicate describes."""
    v = vrec["v"]
    for f in findings.get("findings", []):
        if f["property"] != prop or (f["clause"] != v["clause"] and f["clause"] != "*"):
            continue
        ok = True
        for key, want in f.get("trigger", {}).items():
            if key == "detail_has_path":
                for k2, w2 in want.items():
                    d = v["detail"]
                    for part in k2.split("."):
                        d = d.get(part) if isinstance(d, dict) else None
                    if d != w2:
                        ok = False
            elif key == "detail_in":
                d = v["detail"]
                for k2, w2 in want.items():
                    if not isinstance(d, dict) or d.get(k2) not in w2:
                        ok = False
            elif key == "detail_has":
                d = v["detail"]
                for k2, w2 in want.items():
                    if not isinstance(d, dict) or d.get(k2) != w2:
                        ok = False
            elif key == "cfg_feature":
                if not set(want) <= set(cfg.get("features", [])):
                    ok = False
            elif key == "cfg_name_prefix":
                if not str(cfg.get("name", "")).startswith(want):
                    ok = False
            else:
                ok = False
        if ok:
            return f
    return None


def execute(spec, cfg, prefix, mons=None, **kw):
    """one execution of the real engine + the spec's end-of-execution oracle (twin runs)"""
    if mons is None:
        mons = list(spec.monitors(cfg))
    keep = kw.pop("keep_Q", False)
    res = harness.run(cfg, prefix, mons, keep_Q=True, **kw)
    if hasattr(spec, "post"):
        for clause, detail in spec.post(cfg, res, mons):
            res.violations.append(harness.Violation(spec.id, clause, detail, res.nevents, None))
    if not keep:
        res.Q = None
    return res


def _dev_counts(choices):
    out = [0]
    for c in choices:
        out.append(out[-1] + (1 if c else 0))
    return out


def _digest(obj):
    return state_digest(obj)


def _work(task):
    cfg_idx, prefixes = task
    cfg = CFGS[cfg_idx]
    spec = SPEC
    D = cfg.get("D", INF)
    account = OPTS.get("account", True)
    stack = list(prefixes)
    out = {"cfg": cfg_idx, "n": 0, "viol": [], "status": {}, "maxdepth": 0, "maxdev": 0, "nontriv_n": 0,
           "samples": [], "replayed": 0, "validated": 0, "skipped": 0, "ties": 0, "unowned": 0,
           "flags": {}, "counters": {}, "known": {}, "exc": {}}
    n = 0
    try:
        while stack and n < CHUNK:
            p = stack.pop()
            mons = list(spec.monitors(cfg))
            if account:
                mons.append(Accounting(ACC))
            res = execute(spec, cfg, p, mons, keep_Q=True)
            n += 1
            ch = res.choices
            obs = observation(res.Q, res.events)
            od = _digest((cfg_idx, obs))
            ACC._add("obs", od)
            if account and res.Q is not None:
                try:
                    ACC._add("endstates", state_digest(canon(res.Q)))
                except Exception:
                    pass
            nt = spec.nontrivial(cfg, res)
            if nt:
                out["nontriv_n"] += 1
                ACC._add("nontrivial", od)
            out["status"][res.status] = out["status"].get(res.status, 0) + 1
            for f in res.flags:
                out["flags"][f] = out["flags"].get(f, 0) + 1
            if res.exception is not None:
                tb = res.exception[2].strip().splitlines()
                where = next((l.strip() for l in reversed(tb) if l.strip().startswith("File")), "")
                key = "%s: %s @ %s" % (res.exception[0], res.exception[1][:80], where.split(", in ")[-1])
                e = out["exc"].setdefault(key, {"n": 0, "cfg": cfg.get("name"), "choices": list(ch), "cfgs": set()})
                e["n"] += 1
                e["cfgs"].add(cfg.get("name"))
            if res.ties:
                out["ties"] += 1
            if res.unowned:
                out["unowned"] += 1
            for m in mons:
                v = getattr(m, "validated", 0)
                if v:
                    out["validated"] += v
                c = getattr(m, "counters", None)
                if c:
                    for k, val in c.items():
                        out["counters"][k] = out["counters"].get(k, 0) + val
            if len(ch) > out["maxdepth"]:
                out["maxdepth"] = len(ch)
            dc = _dev_counts(ch)
            if dc[-1] > out["maxdev"]:
                out["maxdev"] = dc[-1]
            for v in res.violations:
                vr = {"cfg": cfg_idx, "choices": list(ch), "v": v.as_dict()}
                f = match_finding(FINDINGS, spec.id, vr, cfg)
                if f is not None:
                    k = out["known"].setdefault(f["id"], {"n": 0, "what": f["what"]})
                    k["n"] += 1
                elif len(out["viol"]) < 40:
                    out["viol"].append(vr)
            # replay determinism on a deterministic subset
            if (od % 97 == 0) or n == 1:
                mons2 = list(spec.monitors(cfg))
                res2 = execute(spec, cfg, ch, mons2, ptags=list(zip(res.tags, res.arity)), strict=True, keep_Q=True)
                if observation(res2.Q, res2.events) != obs or res2.choices != ch or \
                        [v.clause for v in res2.violations] != [v.clause for v in res.violations]:
                    raise env.HarnessError("replay of %r on cfg %s is not deterministic" % (ch, cfg.get("name")))
                out["replayed"] += 1
            if len(out["samples"]) < 2 and (nt or n == 1):
                out["samples"].append({"config": cfg.get("name"), "choices": list(ch),
                                       "tags": list(res.tags),
                                       "events": [[harness._js(t), nd, e] for t, nd, e in res.events[:40]],
                                       "status": res.status, "nontrivial": bool(nt)})
            res.Q = None
            # children: every alternative answer at every position after the replayed prefix
            lp = len(p)
            top = len(ch)
            if top > MAX_DEPTH:
                # livelock guard: never branch beyond MAX_DEPTH choice points (reported, makes the run non-exhaustive)
                out["depth_capped"] = out.get("depth_capped", 0) + 1
                top = MAX_DEPTH
            for i in range(top - 1, lp - 1, -1):
                if dc[i] + 1 > D:
                    continue
                base = ch[:i]
                for alt in range(res.arity[i] - 1, 0, -1):
                    stack.append(tuple(base) + (alt,))
    except env.HarnessError as e:
        out["harness_error"] = "%s (cfg %s)" % (e, cfg.get("name"))
        stack = []
    out["n"] = n
    out["left"] = stack
    out["delta"] = ACC.delta()
    return out


def explore(spec, cfgs, seed=0, account=True, log=None):
    """Run every configuration's (deviation-bounded) answer tree to completion. Returns a summary dict."""
    global SPEC, CFGS, OPTS, FINDINGS
    SPEC, CFGS = spec, cfgs
    OPTS = {"account": account}
    FINDINGS = load_findings()
    t0 = time.time()
    order = list(range(len(cfgs)))
    if seed:
        import random as _r
        _r.Random(seed).shuffle(order)
    tot = {"evaluations": 0, "states": set(), "transitions": set(), "obs": set(), "nontrivial": set(),
           "endstates": set(), "viol": [], "status": {}, "maxdepth": 0, "maxdev": 0, "nontriv_n": 0,
           "samples": [], "replayed": 0, "validated": 0, "ties": 0, "unowned": 0, "flags": {},
           "per_cfg": [0] * len(cfgs), "capped": [], "harness_errors": [], "counters": {}, "known": {}, "exc": {}}
    ctx = mp.get_context("fork")
    pending = 0
    results = []

    def cb(r):
        results.append(r)

    def ecb(e):
        results.append({"harness_error": "worker crashed: %r" % (e,), "n": 0, "left": [], "cfg": -1,
                        "delta": {}, "viol": [], "status": {}, "maxdepth": 0, "maxdev": 0, "nontriv_n": 0,
                        "samples": [], "replayed": 0, "validated": 0, "ties": 0, "unowned": 0, "flags": {}, "counters": {}, "known": {}})

    nw = NWORKERS
    pool = ctx.Pool(nw) if nw > 1 else None
    try:
        queue = [(i, [()]) for i in order]
        queue.reverse()
        capped = set()
        nviol_cfg = {}
        tot["stopped_after_violation"] = []
        while queue or pending:
            while queue and (pool is None or pending < nw * 3):
                task = queue.pop()
                if task[0] in capped:
                    continue
                if pool is None:
                    results.append(_work(task))
                else:
                    pool.apply_async(_work, (task,), callback=cb, error_callback=ecb)
                    pending += 1
            if pool is not None and not results:
                time.sleep(0.002)
                continue
            while results:
                r = results.pop()
                if pool is not None:
                    pending -= 1
                if r.get("harness_error"):
                    tot["harness_errors"].append(r["harness_error"])
                ci = r["cfg"]
                tot["evaluations"] += r["n"]
                if ci >= 0:
                    tot["per_cfg"][ci] += r["n"]
                for k in ("states", "transitions", "obs", "nontrivial", "endstates"):
                    tot[k].update(r["delta"].get(k, ()))
                tot["viol"].extend(r["viol"][: max(0, 200 - len(tot["viol"]))])
                for k, v in r["status"].items():
                    tot["status"][k] = tot["status"].get(k, 0) + v
                for k, v in r["flags"].items():
                    tot["flags"][k] = tot["flags"].get(k, 0) + v
                for k, v in r["counters"].items():
                    tot["counters"][k] = tot["counters"].get(k, 0) + v
                for k, v in r.get("exc", {}).items():
                    e = tot["exc"].setdefault(k, {"n": 0, "cfg": v["cfg"], "choices": v["choices"], "cfgs": set()})
                    e["n"] += v["n"]
                    e["cfgs"] |= v["cfgs"]
                for k, v in r.get("known", {}).items():
                    kk = tot["known"].setdefault(k, {"n": 0, "what": v["what"]})
                    kk["n"] += v["n"]
                tot["maxdepth"] = max(tot["maxdepth"], r["maxdepth"])
                tot["depth_capped"] = tot.get("depth_capped", 0) + r.get("depth_capped", 0)
                tot["maxdev"] = max(tot["maxdev"], r["maxdev"])
                for k in ("nontriv_n", "replayed", "validated", "ties", "unowned"):
                    tot[k] += r[k]
                if len(tot["samples"]) < 6:
                    tot["samples"].extend(r["samples"])
                left = r["left"]
                if ci >= 0 and r["viol"]:
                    nviol_cfg[ci] = nviol_cfg.get(ci, 0) + len(r["viol"])
                if left and ci >= 0:
                    cap = cfgs[ci].get("max_exec", DEFAULT_CAP)
                    if nviol_cfg.get(ci, 0) >= 20:
                        # a counter-example is enough: do not exhaust a tree that already violates
                        if ci not in capped:
                            capped.add(ci)
                            tot["stopped_after_violation"].append(cfgs[ci].get("name"))
                    elif tot["per_cfg"][ci] >= cap:
                        if ci not in capped:
                            capped.add(ci)
                            tot["capped"].append({"config": cfgs[ci].get("name"), "cap": cap})
                    else:
                        parts = min(len(left), 6 if len(left) > 12 else 2)
                        for j in range(parts):
                            sub = left[j::parts]
                            if sub:
                                queue.append((ci, sub))
                if tot["harness_errors"]:
                    queue = []
    finally:
        if pool is not None:
            pool.terminate()
            pool.join()
    tot["wall_s"] = time.time() - t0
    return tot


# ------------------------------------------------------------------------------------------------
def unlisted(spec, cfg, res, clause):
    """first violation of `clause` in res that no known finding covers"""
    for v in res.violations:
        if v.clause == clause and match_finding(FINDINGS, spec.id, {"v": v.as_dict()}, cfg) is None:
            return v
    return None


def minimise(spec, cfg, choices, clause):
    """Greedy: reset non-default answers to the default while the same (unlisted) clause still fails."""
    def fails(pref):
        res = execute(spec, cfg, tuple(pref))
        if unlisted(spec, cfg, res, clause) is not None:
            return res
        return None
    best = fails(choices)
    if best is None:
        return None
    cur = list(best.choices)
    improved = True
    while improved:
        improved = False
        # try truncating (answer 0 afterwards) then zeroing single answers
        for i in reversed(range(len(cur))):
            if cur[i] == 0:
                continue
            trial = cur[:i] + [0]
            r = fails(trial)
            if r is None:
                trial = cur[:i] + [0] + cur[i + 1:]
                try:
                    r = fails(trial)
                except env.Divergence:
                    r = None
            if r is not None and sum(1 for c in r.choices if c) < sum(1 for c in cur if c):
                best, cur = r, list(r.choices)
                improved = True
                break
    return best


def write_replay(spec, cfg, res, v, outdir):
    os.makedirs(outdir, exist_ok=True)
    body = {
        "property": v.prop, "clause": v.clause, "detail": v.detail, "event_index": v.event, "time": harness._js(v.t),
        "config": cfg, "choices": list(res.choices), "tags": list(res.tags), "arity": list(res.arity),
        "events": [[harness._js(t), nd, e] for t, nd, e in res.events],
        "samples": [harness._js(s) for s in res.samples],
        "replay": "./check %s --replay <this file>" % v.prop,
    }
    blob = json.dumps(body, sort_keys=True, default=harness._js)
    dg = hashlib.sha1(blob.encode()).hexdigest()[:12]
    path = os.path.join(outdir, "%s_%s.json" % (v.clause, dg))
    with open(path, "w") as f:
        json.dump(body, f, indent=1, sort_keys=True, default=harness._js)
    # a plain unit test that replays the recorded answer sequence without the explorer
    test = path[:-5] + "_test.py"
    with open(test, "w") as f:
        f.write(_TEST_TEMPLATE % {"root": os.path.dirname(os.path.dirname(os.path.abspath(__file__))), "pid": v.prop,
                                  "path": path, "clause": v.clause})
    return path


_TEST_TEMPLATE = '''"""Replays one recorded execution (fixed answer list, divergence = error) on the real ciw engine.
Run: PYTHONHASHSEED=0 /venv/bin/python %(path)s_test  (or: ./check %(pid)s --replay %(path)s)"""
import sys
import unittest

sys.path.insert(0, %(root)r)


class Replay(unittest.TestCase):
    def test_property_%(pid)s_%(clause)s(self):
        import importlib
        from ciwmc import explore
        spec = importlib.import_module("ciwmc.props.%(pid)s".lower()).SPEC
        body, res = explore.replay_file(spec, %(path)r)
        clauses = [v.clause for v in res.violations]
        self.assertNotIn(%(clause)r, clauses, "property %(pid)s violated: %%r" %% [v.as_dict() for v in res.violations])


if __name__ == "__main__":
    unittest.main()
'''


def replay_file(spec, path):
    body = json.load(open(path))
    cfg = body["config"]
    res = execute(spec, cfg, tuple(body["choices"]), ptags=list(zip(body["tags"], body["arity"])), strict=True)
    return body, res
