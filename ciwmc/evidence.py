"""Turn an exploration summary into a verdict, replay artefacts and the evidence file."""
import os
import json
import time

from . import harness, explore, env

ROOT = os.path.dirname(os.path.dirname(os.path.abspath(__file__)))
OUT = os.environ.get("CIWMC_OUT", ROOT)   # evidence/ and replays/ go here (scratch dir when testing seeded changes)


def _bounds(cfgs):
    fams = {}
    for c in cfgs:
        f = fams.setdefault(c.get("family", "?"), {"configs": 0, "K": set(), "T": set(), "D": set(), "entry": set()})
        f["configs"] += 1
        f["K"].add(c.get("K"))
        f["T"].add(c["entry"][1] if c.get("entry") and c["entry"][0] == "max_time" else None)
        f["D"].add("inf" if c.get("D", explore.INF) == explore.INF else c.get("D"))
        f["entry"].add(c.get("entry", ["max_time"])[0])
    out = {}
    for k, f in fams.items():
        out[k] = {"configs": f["configs"], "K": sorted(x for x in f["K"] if x is not None),
                  "T": sorted(x for x in f["T"] if x is not None),
                  "D": sorted(map(str, f["D"])), "entry": sorted(f["entry"])}
    return out


def write_evidence(spec, tier, seed, coverage, assumptions, wall, nviol):
    os.makedirs(os.path.join(OUT, "evidence"), exist_ok=True)
    ev = {
        "property_id": spec.id, "tier": tier, "seed": seed, "level": "model_checking",
        "coverage": coverage, "assumptions": assumptions, "wall_s": round(wall, 2), "violations": nviol,
    }
    path = os.path.join(OUT, "evidence", "%s.json" % spec.id)
    tmp = path + ".tmp"
    with open(tmp, "w") as f:
        json.dump(ev, f, indent=1, sort_keys=True, default=harness._js)
    os.replace(tmp, path)
    return path


def conclude(spec, cfgs, tot, tier, seed, t0):
    if tot["harness_errors"]:
        for e in tot["harness_errors"][:5]:
            print("HARNESS-ERROR: %s" % e)
        return 2
    pid = spec.id
    # ---- violations: known findings were already separated by the workers -------------------------
    unmatched = tot["viol"]
    known = tot.get("known", {})
    printed = []
    by_clause = {}
    for vr in unmatched:
        by_clause.setdefault(vr["v"]["clause"], []).append(vr)
    for clause in sorted(by_clause):
        cands = sorted(by_clause[clause], key=lambda vr: (sum(1 for c in vr["choices"] if c), len(vr["choices"]), vr["cfg"], vr["choices"]))
        vr = cands[seed % min(len(cands), 3)] if seed else cands[0]
        cfg = cfgs[vr["cfg"]]
        if vr.get("cfg_override"):
            cfg = dict(cfg, **vr["cfg_override"])   # explicit-state engine: the event bound of the violating replay
        try:
            best = explore.minimise(spec, cfg, vr["choices"], clause)
        except env.HarnessError:
            best = None
        if best is None:
            best = explore.execute(spec, cfg, tuple(vr["choices"]))
        v = explore.unlisted(spec, cfg, best, clause)
        if v is None:
            print("HARNESS-ERROR: violation %s on %s did not reproduce" % (clause, cfg.get("name")))
            return 2
        path = explore.write_replay(spec, cfg, best, v, os.path.join(OUT, "replays", pid))
        printed.append((clause, path, v))
    for fid, k in sorted(known.items()):
        print("KNOWN-FINDING: property=%s %s (%d executions)" % (pid, k["what"], k["n"]))
    for clause, path, v in printed:
        print("VIOLATION property=%s replay=%s" % (pid, path))
        print("  clause=%s config=%s detail=%s" % (clause, json.load(open(path))["config"].get("name"), json.dumps(harness._js(v.detail))[:400]))
    # ---- evidence -----------------------------------------------------------------------------------
    exhaustive = not tot["capped"] and not tot.get("depth_capped") and not tot.get("stopped_after_violation") \
        and all(e["complete"] for e in tot.get("explicit", []))
    cov = {
        "states": len(tot["states"]), "transitions": len(tot["transitions"]),
        "traces_validated_against_impl": tot["validated"],
        "evaluations": tot["evaluations"],
        "distinct_nontrivial": len(tot["nontrivial"]),
        "distinct_observations": len(tot["obs"]),
        "distinct_end_states": len(tot["endstates"]),
        "nontrivial_executions": tot["nontriv_n"],
        "rule": spec.rule,
        "samples": tot["samples"][:6],
        "exhaustive": exhaustive,
        "configurations": len(cfgs),
        "families": _bounds(cfgs),
        "max_choice_points_in_one_execution": tot["maxdepth"],
        "max_deviations_in_one_execution": tot["maxdev"],
        "execution_status": tot["status"],
        "feature_fired_executions": tot["flags"],
        "executions_with_ties": tot["ties"],
        "replay_determinism_checked": tot["replayed"],
        "unowned_randomness_executions": tot["unowned"],
        "capped_configurations": tot["capped"],
        "executions_beyond_branching_depth": tot.get("depth_capped", 0),
        "configurations_stopped_after_violation": tot.get("stopped_after_violation", []),
        "monitor_counters": tot["counters"],
        "known_findings_hit": {k: v["n"] for k, v in known.items()},
        "workers": explore.NWORKERS,
        "explicit_state_search": tot.get("explicit", []),
    }
    for e in tot.get("explicit", []):
        cov["states"] += e["states"]
        cov["transitions"] += e["transitions"]
        cov["evaluations"] += e["executions"]
    wall = time.time() - t0
    write_evidence(spec, tier, seed, cov, list(spec.assumptions), wall, len(printed))
    for e in tot.get("explicit", []):
        print("  explicit-state %s: %d states, %d transitions, depth %d, complete=%s, stateless-subset-check=%s, %.1fs" % (
            e["config"], e["states"], e["transitions"], e["depth"], e["complete"], e["cross_check"], e["wall_s"]))
    print("%s %s: %d configurations, %d executions, %d states, %d transitions, %d distinct nontrivial, "
          "%d validated, %.1fs, exhaustive=%s%s" % (
              pid, tier, len(cfgs), tot["evaluations"], cov["states"], cov["transitions"],
              cov["distinct_nontrivial"], tot["validated"], wall, exhaustive,
              "" if not tot["capped"] else " CAPPED:%d" % len(tot["capped"])))
    if tot["unowned"]:
        print("HARNESS-ERROR: %d executions used randomness not owned by the explorer" % tot["unowned"])
        return 2
    if getattr(spec, "min_nontrivial", 2) > cov["distinct_nontrivial"] and not printed:
        print("HARNESS-ERROR: vacuous exploration (distinct_nontrivial=%d)" % cov["distinct_nontrivial"])
        return 2
    return 1 if printed else 0
