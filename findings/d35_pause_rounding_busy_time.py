"""C16 (D35): the documented server priority function 'least busy server first' (reads Server.busy_time) chose other
servers after a pause: wrap_up_servers added the partial service time to busy_time and detatch_server subtracted it again,
(b + p) - p + s != b + s in floating point, so two servers whose busy times are equal in the unsplit run differed by one
unit in the last place in the split run.  Found by C16's thorough tier (family 'c=3 least-busy server first').
The demo checks the arithmetic identity directly: after any pause pattern every server's busy_time is bit-identical."""
import ciw

def least_busy(srv, ind):
    return srv.busy_time

def build():
    return ciw.create_network(
        arrival_distributions=[ciw.dists.Sequential([0.47, 0.29, 0.29, 0.47, 0.29, 0.29, 0.47, 0.47, 0.29, 100.0])],
        service_distributions=[ciw.dists.Sequential([0.61, 2.23, 0.61, 0.61, 2.23, 0.61, 0.61, 0.61, 0.61])],
        number_of_servers=[3], server_priority_functions=[least_busy])

def run(cuts, T=4.1):
    Q = ciw.Simulation(build())
    for c in cuts:
        Q.simulate_until_max_time(c)
    Q.simulate_until_max_time(T)
    return (sorted((r.id_number, r.server_id, r.service_start_date) for r in Q.get_all_records()),
            [(s.id_number, s.busy_time) for s in Q.nodes[1].servers])

one = run([])
import itertools
pts = [0.3 + 0.115 * k for k in range(32)]
for cuts in [(p,) for p in pts] + list(itertools.combinations(pts[::3], 2)):
    two = run(list(cuts))
    assert one == two, "pauses at %s change records or busy times:\n%s\n%s" % (cuts, one, two)
print("ok")
