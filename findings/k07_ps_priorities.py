"""KNOWN FINDING C19-ps-priorities: limited PS node (capacity 2) with two priority classes: after a departure the
waiting customer is not started although a place is free."""
import ciw
N = ciw.create_network(
    arrival_distributions={'H': [ciw.dists.Sequential([2.0, 100.0])], 'L': [ciw.dists.Sequential([0.5, 0.5, 100.0])]},
    service_distributions={'H': [ciw.dists.Deterministic(5.0)], 'L': [ciw.dists.Sequential([1.0, 5.0, 5.0])]},
    number_of_servers=[2],
    priority_classes={'H': 0, 'L': 1},
)
Q = ciw.Simulation(N, node_class=ciw.PSNode)
Q.simulate_until_max_time(4.0)
nd = Q.transitive_nodes[0]
state = [(i.id_number, i.customer_class, i.with_server) for i in nd.all_individuals]
print(state)
assert sum(1 for s in state if s[2]) == min(len(state), 2), "a place of the PS node is unused while a customer waits"
