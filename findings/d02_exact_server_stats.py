"""C14/C20: exact arithmetic, run ends while a server is busy with its first customer (or a server
was never busy): TypeError float/Decimal in wrap_up_servers / find_server_utilisation."""
import ciw
N = ciw.create_network(
    arrival_distributions=[ciw.dists.Deterministic(1.0)],
    service_distributions=[ciw.dists.Deterministic(5.0)],
    number_of_servers=[2],
)
Q = ciw.Simulation(N, exact=12)
Q.simulate_until_max_time(3.5)
u = Q.transitive_nodes[0].server_utilisation
print("ok", u)
assert abs(float(u) - (2.5 + 1.5) / 7.0) < 1e-12, u
