"""C14/C20: exact arithmetic with reneging: TypeError Decimal + float in get_reneging_date."""
import ciw
from decimal import Decimal
N = ciw.create_network(
    arrival_distributions=[ciw.dists.Deterministic(1.0)],
    service_distributions=[ciw.dists.Deterministic(2.5)],
    number_of_servers=[1],
    reneging_time_distributions=[ciw.dists.Deterministic(0.7)],
)
Q = ciw.Simulation(N, exact=12)
Q.simulate_until_max_time(6.0)
recs = [r for r in Q.get_all_records() if r.record_type == 'renege']
print("ok", [(r.id_number, r.exit_date) for r in recs])
assert recs and all(isinstance(r.exit_date, Decimal) for r in recs)
assert recs[0].exit_date == Decimal('2.7'), recs[0].exit_date
