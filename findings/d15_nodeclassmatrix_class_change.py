"""C17: NodeClassMatrix with a class change AFTER service: the customer is counted in under its old class and
counted out under its new class, so the old class count never returns to zero and the new one goes negative."""
import ciw
N = ciw.create_network(
    arrival_distributions={'A': [ciw.dists.Sequential([1.0, 100.0]), None], 'B': [None, None]},
    service_distributions={'A': [ciw.dists.Deterministic(1.0), ciw.dists.Deterministic(1.0)], 'B': [ciw.dists.Deterministic(1.0), ciw.dists.Deterministic(1.0)]},
    number_of_servers=[1, 1],
    routing={'A': [[0.0, 1.0], [0.0, 0.0]], 'B': [[0.0, 1.0], [0.0, 0.0]]},
    class_change_matrices=[{'A': {'A': 0.0, 'B': 1.0}, 'B': {'A': 0.0, 'B': 1.0}}, {'A': {'A': 1.0, 'B': 0.0}, 'B': {'A': 0.0, 'B': 1.0}}],
)
Q = ciw.Simulation(N, tracker=ciw.trackers.NodeClassMatrix())
Q.simulate_until_max_time(2.5)   # the customer is now at node 2 as class B
print(Q.statetracker.history)
assert Q.statetracker.hash_state() == ((0, 0), (0, 1)), Q.statetracker.hash_state()
print("ok")
