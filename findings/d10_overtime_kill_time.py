"""C04: non-pre-emptive schedule, an off-duty (overtime) server holds a BLOCKED customer and is dismissed when that
customer is unblocked by an event of ANOTHER node.  kill_server uses this node's next_event_date as 'now', which
then is the date of this node's next scheduled event, so the server's total time (and node.overtime) is too large
and the reported utilisation is too small."""
import ciw
N = ciw.create_network(
    arrival_distributions=[ciw.dists.Sequential([0.5, 100.0]), ciw.dists.Sequential([0.1, 100.0])],
    service_distributions=[ciw.dists.Deterministic(1.0), ciw.dists.Deterministic(3.0)],
    number_of_servers=[ciw.Schedule(numbers_of_servers=[1, 0], shift_end_dates=[2.0, 6.0]), 1],
    queue_capacities=[float('inf'), 0],
    routing=[[0.0, 1.0], [0.0, 0.0]],
)
Q = ciw.Simulation(N)
Q.simulate_until_max_time(8.0)
n1 = Q.transitive_nodes[0]
# server 1 of node 1: on duty from 0, customer attached 0.5 .. 3.1 (service 0.5-1.5, blocked until node 2 frees at 3.1)
print(n1.overtime, n1.all_servers_total, n1.all_servers_busy, n1.server_utilisation)
assert abs(n1.overtime[0] - 1.1) < 1e-9, n1.overtime
assert abs(n1.server_utilisation - 2.6 / 5.1) < 1e-9, n1.server_utilisation
print("ok")
