"""C07/C14: non-pre-emptive schedule with a zero-server shift; a customer finishing in overtime is blocked;
because Node.c == 0 its server's next_end_service_date is not cleared and it 'finishes service' again and again
at the same instant (the run never advances), or - with probabilistic routing - is routed a second time and
leaves while still listed in the destination's blocked queue (later ValueError)."""
import signal
import ciw


def hang(*a):
    raise SystemExit("HANG: simulation did not advance past t=%r" % Q.current_time)


signal.signal(signal.SIGALRM, hang)
signal.alarm(5)
N = ciw.create_network(
    arrival_distributions=[ciw.dists.Sequential([0.5, 0.4, 100.0]), None],
    service_distributions=[ciw.dists.Sequential([0.2, 2.0]), ciw.dists.Deterministic(3.0)],
    number_of_servers=[ciw.Schedule(numbers_of_servers=[1, 0], shift_end_dates=[1.0, 100.0]), 1],
    queue_capacities=[float('inf'), 0],
    routing=[[0.0, 1.0], [0.0, 0.0]],
)
Q = ciw.Simulation(N)
Q.simulate_until_max_time(20.0)
recs = sorted(Q.get_all_records(), key=lambda r: (r.id_number, r.arrival_date))
for r in recs:
    print(r.id_number, r.node, r.arrival_date, r.service_start_date, r.service_end_date, r.exit_date, r.time_blocked, r.destination)
r2 = [r for r in recs if r.id_number == 2 and r.node == 1][0]
assert (r2.service_end_date, r2.exit_date, r2.time_blocked) == (2.9, 3.7, 3.7 - 2.9), r2
print("ok")
