"""C18 (D38, completes D25; found by a reviewing sub-agent): in exact mode the simulation clock is a float at shift
changes; a tracker state FIRST VISITED at a shift change (a 'reroute' schedule moves customers there) was stored with a
float first-visit time and `time_of_deadlock - first_visit` raised TypeError at the end of simulate_until_deadlock."""
import ciw
N = ciw.create_network(
    arrival_distributions=[ciw.dists.Exponential(6.0), ciw.dists.Exponential(5.0)],
    service_distributions=[ciw.dists.Exponential(2.0), ciw.dists.Exponential(2.0)],
    routing=[[0.1, 0.8], [0.8, 0.1]],
    number_of_servers=[ciw.Schedule([2, 1], [0.3, 0.6], preemption='reroute'), 1], queue_capacities=[2, 1])
ciw.seed(0)
Q = ciw.Simulation(N, exact=14, deadlock_detector=ciw.deadlock.StateDigraph(), tracker=ciw.trackers.NaiveBlocking())
Q.simulate_until_deadlock()
print(max(Q.times_to_deadlock.values()))
print("ok")
