"""C04/C05 (D37, formerly listed as findings *-reentrant-reroute, schedule half; fixed by /repo 7d3c7da):
a pre-emptive schedule with the 'reroute' option re-routes the customers in service at a shift end; a customer whose next
node is the SAME node came back while the outgoing servers were still on the roster, was started on one of them, the
server was then dismissed, and the customer stayed attached to a dead server for ever (never served, an idle server
beside it)."""
import ciw
N = ciw.create_network(
    arrival_distributions=[ciw.dists.Sequential([3.2, 100.0])],
    service_distributions=[ciw.dists.Deterministic(2.0)],
    number_of_servers=[ciw.Schedule(numbers_of_servers=[2, 1], shift_end_dates=[4.0, 10.0], preemption='reroute')],
    routing=ciw.routing.ProcessBased(lambda ind, sim: [1, 1]),
)
Q = ciw.Simulation(N)
Q.simulate_until_max_time(9.0)
node = Q.nodes[1]
stuck = [(i.id_number, str(i.server)) for i in node.all_individuals if i.server and i.server not in node.servers]
print("attached to dismissed servers:", stuck, " records:", [(r.record_type, r.service_start_date, r.exit_date) for r in Q.get_all_records()])
assert not stuck, "customer attached to a dismissed server: %r" % stuck
assert any(r.record_type == "service" for r in Q.get_all_records()), "the re-routed customer was never served"
print("ok")
