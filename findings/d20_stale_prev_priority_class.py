"""C14: a class-change matrix changes a customer's PRIORITY at node 1; at node 2 the customer reneges (or changes
class while waiting): prev_priority_class still names the old priority list -> ValueError list.remove(x)."""
import ciw
N = ciw.create_network(
    arrival_distributions={'A': [ciw.dists.Sequential([0.5, 0.1, 100.0]), None], 'B': [None, None]},
    service_distributions={'A': [ciw.dists.Deterministic(0.5), ciw.dists.Deterministic(5.0)], 'B': [ciw.dists.Deterministic(0.5), ciw.dists.Deterministic(5.0)]},
    number_of_servers=[2, 1],
    routing={'A': [[0.0, 1.0], [0.0, 0.0]], 'B': [[0.0, 1.0], [0.0, 0.0]]},
    priority_classes={'A': 1, 'B': 0},
    class_change_matrices=[{'A': {'A': 0.0, 'B': 1.0}, 'B': {'A': 0.0, 'B': 1.0}}, {'A': {'A': 1.0, 'B': 0.0}, 'B': {'A': 0.0, 'B': 1.0}}],
    reneging_time_distributions={'A': [None, ciw.dists.Deterministic(1.0)], 'B': [None, ciw.dists.Deterministic(1.0)]},
)
Q = ciw.Simulation(N)
Q.simulate_until_max_time(10.0)
recs = [(r.id_number, r.node, r.record_type, r.customer_class) for r in Q.get_all_records()]
print(recs)
assert (2, 2, 'renege', 'B') in recs, recs
print("ok")
