"""C14: reneging + class change while waiting: the customer that reneges stays registered as the node's next
class-change candidate; at its class-change date the event fires for a customer that has left -> ValueError
(list.remove(x): x not in list) in change_priority_queue / corrupts the queue."""
import ciw
N = ciw.create_network(
    arrival_distributions={'A': [ciw.dists.Sequential([1.0, 0.5, 100.0])], 'B': [None]},
    service_distributions={'A': [ciw.dists.Deterministic(10.0)], 'B': [ciw.dists.Deterministic(10.0)]},
    number_of_servers=[1],
    priority_classes={'A': 1, 'B': 0},
    reneging_time_distributions={'A': [ciw.dists.Deterministic(0.5)], 'B': [None]},
    class_change_time_distributions={'A': {'B': ciw.dists.Deterministic(1.5)}},
)
Q = ciw.Simulation(N)
Q.simulate_until_max_time(8.0)
recs = Q.get_all_records()
print("ok", [(r.id_number, r.record_type, r.exit_date) for r in recs])
assert [(r.id_number, r.record_type, r.exit_date) for r in recs] == [(2, 'renege', 2.0)]
