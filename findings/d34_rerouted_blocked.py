"""C01-C05, C07, C12, C14 (D34, formerly listed as findings *-rerouted-blocked; fixed by /repo 49d38f6 (priority reroute) and 4ea2592 (schedule reroute)): a customer that is blocked when a pre-emptive 'reroute' shift ends is re-routed at
once (ignoring capacities) but stays listed in the blocked queue of its old destination."""
import ciw
N = ciw.create_network(
    arrival_distributions=[ciw.dists.Sequential([0.5, 100.0]), ciw.dists.Sequential([0.1, 100.0])],
    service_distributions=[ciw.dists.Deterministic(1.0), ciw.dists.Deterministic(6.0)],
    number_of_servers=[ciw.Schedule(numbers_of_servers=[1, 0], shift_end_dates=[2.0, 30.0], preemption='reroute'), 1],
    queue_capacities=[float('inf'), 0],
    routing=[[0.0, 1.0], [0.0, 0.0]],
)
Q = ciw.Simulation(N)
Q.simulate_until_max_time(3.0)
n2 = Q.transitive_nodes[1]
print("node 2 holds", [i.id_number for i in n2.all_individuals], "capacity", n2.node_capacity, "blocked queue", n2.blocked_queue)
assert n2.blocked_queue == [], "stale blocked-queue entry of a customer that has been re-routed"
