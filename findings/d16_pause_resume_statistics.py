"""C16: simulate_until_max_time called twice (pause / resume): wrap_up_servers adds the running service to busy_time at
every stop and detatch_server adds the whole service again; find_server_utilisation appends the current servers to
the node's lists at every stop.  Busy time and utilisation of a split run differ from the unsplit run."""
import ciw


def run(cuts):
    N = ciw.create_network(
        arrival_distributions=[ciw.dists.Deterministic(1.0)],
        service_distributions=[ciw.dists.Deterministic(0.75)],
        number_of_servers=[1],
    )
    Q = ciw.Simulation(N)
    for c in cuts:
        Q.simulate_until_max_time(c)
    Q.simulate_until_max_time(10.5)
    nd = Q.transitive_nodes[0]
    return nd.servers[0].busy_time, nd.server_utilisation, len(Q.get_all_records())


a = run([])
b = run([3.5])        # cut while the server is busy
c = run([3.9])        # cut while the server is idle
d = run([3.5, 5.25, 5.5])
print(a, b, c, d)
for x in (b, c, d):
    assert abs(x[0] - a[0]) < 1e-9 and abs(x[1] - a[1]) < 1e-9 and x[2] == a[2], (a, x)
print("ok")
