"""C19/C02: processor sharing: an arrival at the very instant another customer's service is due to end (the arrival event
is executed first) makes update_all_service_end_dates subtract a share that exceeds the remaining work by a rounding
error; the projected end date is an epsilon BEFORE the clock, the end-of-service scan (service_end_date >= now) never
selects the customer again and it stays in service for ever."""
import ciw
N = ciw.create_network(
    arrival_distributions=[ciw.dists.Sequential([0.5, 0.5, 0.5, 100.0]), None],
    service_distributions=[ciw.dists.Sequential([0.5, 2.0, 0.5, 2.0, 2.0]), ciw.dists.Deterministic(1.0)],
    batching_distributions=[ciw.dists.Sequential([2, 1, 2]), ciw.dists.Deterministic(1)],
    number_of_servers=[float('inf'), float('inf')],
    routing=[[0.0, 1.0], [0.0, 0.0]],
)
ok = True
for seed in range(8):
    ciw.seed(seed)
    Q = ciw.Simulation(N, node_class=ciw.PSNode)
    Q.simulate_until_max_time(40.0)
    stuck = [(i.id_number, i.service_end_date) for i in Q.transitive_nodes[1].all_individuals]
    if stuck:
        print("seed", seed, "customers still at node 2 at t=40:", stuck)
        ok = False
assert ok, "a customer is stuck at the PS node with an end date in the past"
print("ok")
