"""KNOWN FINDING C16-pause-refreshes-total-time: Server.total_time (hence Server.utilisation) of an IDLE server is only
brought up to date when a customer leaves it - and at every pause (wrap_up_servers).  A server priority function that
reads it ('least utilised server first', cf. docs/Guides/Services/server_priority.rst which reads server.busy_time) sees
other values after a pause, picks another server, and the records (server_id) of a split run differ from the unsplit run."""
import ciw

def least_utilised(srv, ind):
    return (srv.busy_time / srv.total_time) if srv.total_time else 0.0

def build():
    return ciw.create_network(
        arrival_distributions=[ciw.dists.Sequential([0.47, 1.37, 1.37, 0.47, 0.47, 0.47, 0.47, 0.47, 100.0])],
        service_distributions=[ciw.dists.Deterministic(0.61)],
        number_of_servers=[2], server_priority_functions=[least_utilised])

def run(cuts, T=5.3):
    Q = ciw.Simulation(build())
    for c in cuts:
        Q.simulate_until_max_time(c)
    Q.simulate_until_max_time(T)
    return sorted((r.id_number, r.server_id, r.service_start_date) for r in Q.get_all_records())

one = run([])
for cut in (1.0, 2.0, 2.45, 3.0, 4.0):
    two = run([cut])
    assert one == two, "pause at %s changes the records:\n%s\n%s" % (cut, one, two)
print("ok")
