"""C14: capacitated slotted services with pre-emption: a customer interrupted at a slot and restarted at a later slot
keeps interrupted=True for ever.  If it is later blocked, release_blocked_individual treats it as interrupted and
raises ValueError (list.remove(x): x not in list)."""
import ciw
N = ciw.create_network(
    arrival_distributions=[ciw.dists.Sequential([0.5, 0.1, 100.0]), ciw.dists.Sequential([0.2, 100.0])],
    service_distributions=[ciw.dists.Deterministic(1.2), ciw.dists.Deterministic(20.0)],
    number_of_servers=[ciw.Slotted(slots=[1.0, 2.0, 3.0], slot_sizes=[2, 1, 2], capacitated=True, preemption='resume'), 1],
    queue_capacities=[float('inf'), 0],
    routing=[[0.0, 1.0], [0.0, 0.0]],
)
Q = ciw.Simulation(N)
Q.simulate_until_max_time(60.0)
print("ok", len(Q.get_all_records()))
