"""C20: exact mode with a server schedule: shift boundaries are floats, the clock becomes that float and
ExactNode.now = Decimal(float) is the binary expansion (0.299999999999999988897769753748...), so service starts
and interruptions at a shift change carry inexact dates."""
import ciw
from decimal import Decimal
N = ciw.create_network(
    arrival_distributions=[ciw.dists.Sequential([0.1, 100.0])],
    service_distributions=[ciw.dists.Deterministic(0.1)],
    number_of_servers=[ciw.Schedule(numbers_of_servers=[0, 1], shift_end_dates=[0.3, 1.0])],
)
Q = ciw.Simulation(N, exact=12)
Q.simulate_until_max_time(2.0)
r = Q.get_all_records()[0]
print(r.service_start_date, r.service_end_date)
assert r.service_start_date == Decimal('0.3') and r.service_end_date == Decimal('0.4'), r
print("ok")
