"""C04, C05, C08, C12 (D33, formerly listed as findings *-preempt-offduty; fixed by /repo 49d38f6): pre-emptive priorities + NON-pre-emptive schedule.  A lowest-priority customer is
finishing in overtime on an off-duty server while the new shift's server is busy with a middle-priority customer; a
high-priority arrival pre-empts the lowest one; detatch_server dismisses the off-duty server and the pre-emptor is
attached to the dismissed server: it is never served."""
import ciw
N = ciw.create_network(
    arrival_distributions={'L': [ciw.dists.Sequential([0.5, 100.0])], 'M': [ciw.dists.Sequential([2.2, 100.0])], 'H': [ciw.dists.Sequential([2.5, 100.0])]},
    service_distributions={'L': [ciw.dists.Deterministic(6.0)], 'M': [ciw.dists.Deterministic(6.0)], 'H': [ciw.dists.Deterministic(1.0)]},
    number_of_servers=[ciw.Schedule(numbers_of_servers=[1, 1], shift_end_dates=[2.0, 100.0])],
    priority_classes=({'L': 2, 'M': 1, 'H': 0}, ['resume']),
)
Q = ciw.Simulation(N)
Q.simulate_until_max_time(40.0)
recs = [(r.id_number, r.customer_class, r.record_type, r.service_start_date, r.exit_date) for r in Q.get_all_records()]
print(recs)
assert any(r[1] == 'H' and r[2] == 'service' for r in recs), "the high-priority customer is stuck on a dismissed server and is never served"
