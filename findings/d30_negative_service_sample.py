"""C10 (D30, formerly listed as finding C10-invalid-service-sample; fixed by /repo ec61877): a negative service sample is accepted silently."""
import ciw
class Neg(ciw.dists.Distribution):
    def sample(self, t=None, ind=None):
        return -1.0
N = ciw.create_network(arrival_distributions=[ciw.dists.Deterministic(1.0)], service_distributions=[Neg()], number_of_servers=[1])
Q = ciw.Simulation(N)
try:
    Q.simulate_until_max_time(3.5)
except Exception as e:
    print("raised", type(e).__name__)
    raise SystemExit(0)
print([(r.service_start_date, r.service_end_date) for r in Q.get_all_records()])
raise SystemExit("negative service time accepted silently")
