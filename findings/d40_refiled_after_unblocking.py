"""C08 (D40; reported by a reviewing sub-agent, reproduced by C08 on the family 'sched ... + ccm prio + block,
prio-preempt=resume'): a customer is re-classed after service (A -> B, priority 0 -> 1), blocked, loses its server at a
pre-emptive shift end, is un-blocked and served AGAIN when the server returns - still filed in the priority-0 list.  When it
is then pre-empted it waits in the wrong list and is chosen as if it had priority 0."""
import ciw
N = ciw.create_network(
    arrival_distributions={"A": [ciw.dists.Sequential([1.0, 1.0, 3.5, 1000.0]), None], "B": [None, None]},
    service_distributions={"A": [ciw.dists.Deterministic(1.0), ciw.dists.Deterministic(6.0)], "B": [ciw.dists.Deterministic(1.0), ciw.dists.Deterministic(6.0)]},
    number_of_servers=[ciw.Schedule(numbers_of_servers=[1, 0, 1], shift_end_dates=[4, 5, 100], preemption="restart"), 1],
    queue_capacities=[float("inf"), 0],
    routing={"A": [[0.0, 1.0], [0.0, 0.0]], "B": [[0.0, 1.0], [0.0, 0.0]]},
    class_change_matrices=[{"A": {"A": 0.0, "B": 1.0}, "B": {"A": 0.0, "B": 1.0}}, {"A": {"A": 1.0, "B": 0.0}, "B": {"A": 0.0, "B": 1.0}}],
    priority_classes=({"A": 0, "B": 1}, ["resume", False]),
)
Q = ciw.Simulation(N)
for k in range(1, 40):
    Q.simulate_until_max_time(0.25 * k)
    for node in Q.transitive_nodes:
        for p, lst in enumerate(node.individuals):
            for ind in lst:
                if ind.service_start_date is False and not ind.is_blocked:
                    assert ind.priority_class == p, "t=%s: waiting customer %s (class %s, priority %s) is filed under priority %s" % (
                        0.25 * k, ind.id_number, ind.customer_class, ind.priority_class, p)
print("ok")
