"""C14: pre-emptive priorities + class change while waiting that raises the priority + a server schedule with a
zero-server shift: the timed class change calls decide_preempt while the node has no servers ->
ValueError: max() iterable argument is empty."""
import ciw
N = ciw.create_network(
    arrival_distributions={'L': [ciw.dists.Sequential([2.2, 100.0])], 'H': [None]},
    service_distributions={'L': [ciw.dists.Deterministic(1.0)], 'H': [ciw.dists.Deterministic(1.0)]},
    number_of_servers=[ciw.Schedule(numbers_of_servers=[1, 0, 1], shift_end_dates=[2.0, 4.0, 100.0])],
    priority_classes=({'L': 1, 'H': 0}, ['resume']),
    class_change_time_distributions={'L': {'H': ciw.dists.Deterministic(0.5)}},
)
Q = ciw.Simulation(N)
Q.simulate_until_max_time(8.0)
print([(r.id_number, r.customer_class, r.service_start_date) for r in Q.get_all_records()])
print("ok")
