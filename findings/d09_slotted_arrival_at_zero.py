"""C02/C12: slotted node, a customer arriving at t = 0.0: a waiting customer has service_end_date False and
False >= 0.0 is True, so it is treated as finishing service: it leaves with a 'service' record whose
service_start_date is False, outside any slot."""
import ciw
N = ciw.create_network(
    arrival_distributions=[ciw.dists.Sequential([0.0, 100.0])],
    service_distributions=[ciw.dists.Deterministic(0.5)],
    number_of_servers=[ciw.Slotted(slots=[1.0, 2.0], slot_sizes=[1, 1])],
)
Q = ciw.Simulation(N)
Q.simulate_until_max_time(5.0)
recs = Q.get_all_records()
print([(r.id_number, r.record_type, r.service_start_date, r.exit_date) for r in recs])
assert [(r.service_start_date, r.exit_date) for r in recs] == [(1.0, 1.5)], recs
print("ok")
