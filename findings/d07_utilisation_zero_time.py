"""C14: simulate_until_max_customers stopping at the very instant scheduled servers come on duty (schedule
with an offset): total server time is 0 -> ZeroDivisionError in find_server_utilisation."""
import ciw
N = ciw.create_network(
    arrival_distributions=[ciw.dists.Sequential([0.5, 1.0, 100.0])],
    service_distributions=[ciw.dists.Deterministic(1.0)],
    number_of_servers=[ciw.Schedule(numbers_of_servers=[1, 2], shift_end_dates=[3.0, 6.0], offset=0.5)],
)
for seed in range(4):
    Q = ciw.Simulation(N)
    ciw.seed(seed)
    Q.simulate_until_max_customers(1, method='Arrive')
print("ok")
