"""C09 (D39): number_in_service (an input of JoinShortestQueue / LoadBalancing) went NEGATIVE: a customer that is
blocked, loses its server at a pre-emptive shift end (interrupt_service counts it out) and is then admitted to its
destination (release() counts it out again).  Reported independently by a seeding and by a reviewing sub-agent;
reproduced by the counter invariant added to C09 (family 'two upstream (sched restart) one dest')."""
import ciw
N = ciw.create_network(
    arrival_distributions=[ciw.dists.Sequential([1.0, 1.0, 1000.0]), None],
    service_distributions=[ciw.dists.Deterministic(1.0), ciw.dists.Deterministic(6.0)],
    number_of_servers=[ciw.Schedule(numbers_of_servers=[1, 0], shift_end_dates=[5, 100], preemption="resume"), 1],
    queue_capacities=[float("inf"), 0],
    routing=[[0.0, 1.0], [0.0, 0.0]],
)
Q = ciw.Simulation(N)
for t in range(1, 21):
    Q.simulate_until_max_time(t + 0.5)
    for node in Q.transitive_nodes:
        held = sum(1 for s in node.servers if s.cust)
        assert node.number_in_service == held, "t=%s node %s: number_in_service=%s but %s servers hold a customer" % (
            t + 0.5, node.id_number, node.number_in_service, held)
print("ok")
