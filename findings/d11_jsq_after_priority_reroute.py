"""C09: JoinShortestQueue reads number_of_individuals - number_in_service.  After a priority pre-emption with the
're-route' option the victim's release decrements number_in_service but the pre-emptor's start does not increment
it, so the node under-counts its customers in service for the rest of the run and JSQ sees a waiting line that
does not exist."""
import ciw
N = ciw.create_network(
    arrival_distributions={'L': [ciw.dists.Sequential([1.0, 100.0]), None, None], 'H': [ciw.dists.Sequential([2.0, 100.0]), None, None],
                           'X': [None, None, ciw.dists.Sequential([5.0, 100.0])]},
    service_distributions={c: [ciw.dists.Deterministic(10.0), ciw.dists.Deterministic(10.0), ciw.dists.Deterministic(0.5)] for c in 'LHX'},
    number_of_servers=[1, 1, 1],
    priority_classes=({'L': 1, 'H': 0, 'X': 0}, ['reroute', False, False]),
    routing={c: ciw.routing.NetworkRouting(routers=[ciw.routing.Direct(to=2), ciw.routing.Leave(),
                                                     ciw.routing.JoinShortestQueue(destinations=[1, 2], tie_break='order')]) for c in 'LHX'},
)
Q = ciw.Simulation(N)
Q.simulate_until_max_time(5.6)
# t=5.5: X leaves node 3.  node 1: H in service, nobody waiting.  node 2: L (re-routed there) in service, nobody waiting.
# true waiting lines (0, 0) -> tie -> first listed destination (node 1)
n1 = Q.transitive_nodes[0]
print(n1.number_of_individuals, n1.number_in_service)
x = [i for nd in Q.transitive_nodes for i in nd.all_individuals if i.customer_class == 'X'][0]
print("X is at node", x.node)
assert n1.number_in_service == 1, n1.number_in_service
assert x.node == 1
print("ok")
