"""KNOWN FINDING C06-jockey-ignores-capacity: jockeying into a full node exceeds its capacity."""
import ciw
class Jockey(ciw.routing.Leave):
    def next_node_for_jockeying(self, ind):
        return self.simulation.nodes[2]
N = ciw.create_network(
    arrival_distributions=[ciw.dists.Sequential([0.5, 0.5, 100.0]), ciw.dists.Sequential([0.1, 100.0])],
    service_distributions=[ciw.dists.Deterministic(10.0), ciw.dists.Deterministic(10.0)],
    number_of_servers=[1, 1], queue_capacities=[float('inf'), 0],
    routing=ciw.routing.NetworkRouting(routers=[Jockey(), ciw.routing.Leave()]),
    reneging_time_distributions=[ciw.dists.Deterministic(1.0), None])
Q = ciw.Simulation(N)
Q.simulate_until_max_time(3.0)
n2 = Q.transitive_nodes[1]
print(n2.number_of_individuals, n2.node_capacity)
assert n2.number_of_individuals <= n2.node_capacity, "node 2 holds more than servers + queue capacity after a jockeying customer joined"
