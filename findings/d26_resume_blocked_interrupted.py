"""C02 (D26, formerly listed as finding C02-resume-blocked-interrupted; fixed by /repo 996246f): pre-emptive schedule with 'resume' at a node whose customers can
be blocked.  A customer that has finished service and is blocked when the shift ends is 'interrupted'; when the
servers return while it is still blocked it is restarted with time_left = service_end_date - shift_end < 0, so
its new end of service lies in the past and the clock goes backwards."""
import ciw
times = []
class T(ciw.trackers.SystemPopulation):
    def timestamp(self):
        times.append(self.simulation.current_time)
        super().timestamp()
N = ciw.create_network(
    arrival_distributions=[ciw.dists.Sequential([0.5, 100.0]), ciw.dists.Sequential([0.1, 100.0])],
    service_distributions=[ciw.dists.Deterministic(1.0), ciw.dists.Deterministic(6.0)],
    number_of_servers=[ciw.Schedule(numbers_of_servers=[1, 0], shift_end_dates=[2.0, 3.0], preemption='resume'), 1],
    queue_capacities=[float('inf'), 0],
    routing=[[0.0, 1.0], [0.0, 0.0]],
)
Q = ciw.Simulation(N, tracker=T())
Q.simulate_until_max_time(12.0)
print(times)
assert times == sorted(times), "clock went backwards"
print("ok")
