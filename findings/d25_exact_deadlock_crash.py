"""C18 (D25): simulate_until_deadlock with exact=k crashed with TypeError (Decimal - float) when it built
times_to_deadlock: the first-visit time of the initial state was the float 0.0.
(side remark of a refactoring sub-agent; reproduced by C18 family 'cycle2 ... exact=12')"""
from decimal import Decimal
import ciw
N = ciw.create_network(arrival_distributions=[ciw.dists.Deterministic(1.0)], service_distributions=[ciw.dists.Deterministic(0.5)],
                       number_of_servers=[1], queue_capacities=[0], routing=[[1.0]])
Q = ciw.Simulation(N, exact=10, deadlock_detector=ciw.deadlock.StateDigraph(), tracker=ciw.trackers.NaiveBlocking())
Q.simulate_until_deadlock()
assert Q.times_to_deadlock == {((0, 0),): Decimal('1.5'), ((1, 0),): Decimal('0.5'), ((0, 1),): Decimal('0.0')}, Q.times_to_deadlock
print("ok")
