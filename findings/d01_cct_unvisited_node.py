"""C14: class_change_time_distributions on a network where some node has not yet seen a customer:
AttributeError: 'Node' object has no attribute 'next_class_change_ind' at the first update_next_event_date."""
import ciw
N = ciw.create_network(
    arrival_distributions={'A': [ciw.dists.Deterministic(1.0), None], 'B': [None, None]},
    service_distributions={'A': [ciw.dists.Deterministic(0.4), ciw.dists.Deterministic(0.4)],
                           'B': [ciw.dists.Deterministic(0.4), ciw.dists.Deterministic(0.4)]},
    number_of_servers=[1, 1],
    routing={'A': [[0.0, 1.0], [0.0, 0.0]], 'B': [[0.0, 1.0], [0.0, 0.0]]},
    class_change_time_distributions={'A': {'B': ciw.dists.Deterministic(0.7)}},
)
Q = ciw.Simulation(N)
Q.simulate_until_max_time(5.0)
print("ok", len(Q.get_all_records()))
