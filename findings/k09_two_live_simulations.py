"""KNOWN FINDING C15-live-simulations-share-network-objects."""
import ciw
N = ciw.create_network(arrival_distributions=[ciw.dists.Deterministic(1.0), None], service_distributions=[ciw.dists.Deterministic(0.25)] * 2,
                       number_of_servers=[1, 1], routing=[[0.0, 1.0], [0.0, 0.0]])
Q1 = ciw.Simulation(N)
Q2 = ciw.Simulation(N)          # re-binds the shared routing object to Q2
Q1.simulate_until_max_time(3.9)
n1 = len(Q1.get_all_records()); n2 = len(Q2.get_all_records())
print(n1, n2)
assert n2 == 0 and n1 == 6, "customers of Q1 were routed into the nodes of Q2"
