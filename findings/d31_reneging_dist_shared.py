"""C15 (D31, formerly listed as finding C15-reneging-dists-shared; fixed by /repo 1834e65): a Sequential reneging distribution on a re-used Network."""
import ciw
N = ciw.create_network(
    arrival_distributions=[ciw.dists.Deterministic(1.0)], service_distributions=[ciw.dists.Deterministic(5.0)], number_of_servers=[1],
    reneging_time_distributions=[ciw.dists.Sequential([0.25, 0.5, 0.75])])
def run():
    Q = ciw.Simulation(N); Q.simulate_until_max_time(4.5)
    return [r.waiting_time for r in Q.get_all_records() if r.record_type == 'renege']
a, b = run(), run()
print(a, b)
assert a == b, "second simulation on the same Network continues the Sequential reneging distribution"
