"""C14, C02 (D32, formerly listed as findings C14-preempt-blocked and C02-preempt-blocked; fixed by /repo 49d38f6): pre-emptive priorities at a node whose customers can be blocked.
The high-priority arrival pre-empts a customer that has finished service and is blocked; when the blocked
customer is later released, write_individual_record dereferences individual.server (False)."""
import ciw
N = ciw.create_network(
    arrival_distributions={'L': [ciw.dists.Sequential([0.5, 0.5, 100.0]), None], 'H': [ciw.dists.Sequential([2.7, 100.0]), None]},
    service_distributions={'L': [ciw.dists.Deterministic(1.0), ciw.dists.Deterministic(4.0)],
                           'H': [ciw.dists.Deterministic(1.0), ciw.dists.Deterministic(4.0)]},
    number_of_servers=[1, 1],
    queue_capacities=[float('inf'), 0],
    routing={'L': [[0.0, 1.0], [0.0, 0.0]], 'H': [[0.0, 1.0], [0.0, 0.0]]},
    priority_classes=({'L': 1, 'H': 0}, ['resume', False]),
)
Q = ciw.Simulation(N)
Q.simulate_until_max_time(30.0)
print("ok")
