"""C02/C13: pre-emptive priorities + reneging: a customer whose service started before its patience ran out is
pre-empted later; its stale reneging date is then in the past, the renege event is executed with a date earlier
than the clock (time goes backwards) and a customer that had been in service reneges."""
import ciw
N = ciw.create_network(
    arrival_distributions={'L': [ciw.dists.Sequential([0.5, 100.0])], 'H': [ciw.dists.Sequential([5.0, 100.0])]},
    service_distributions={'L': [ciw.dists.Deterministic(10.0)], 'H': [ciw.dists.Deterministic(1.0)]},
    number_of_servers=[1],
    priority_classes=({'L': 1, 'H': 0}, ['resume']),
    reneging_time_distributions={'L': [ciw.dists.Deterministic(3.0)], 'H': [None]},
)
Q = ciw.Simulation(N)
times = []
class T(ciw.trackers.SystemPopulation):
    def timestamp(self):
        times.append(self.simulation.current_time)
        super().timestamp()
Q = ciw.Simulation(N, tracker=T())
Q.simulate_until_max_time(30.0)
print(times)
recs = sorted(Q.get_all_records(), key=lambda r: (r.id_number, r.exit_date))
print([(r.id_number, r.record_type, r.exit_date) for r in recs])
assert times == sorted(times), "clock went backwards: %r" % times
assert not any(r.record_type == 'renege' for r in recs), "a customer that had started service reneged"
print("ok")
