"""C09: JoinShortestQueue towards processor-sharing nodes: PSNode never increments number_in_service (its own
begin_service methods do not), while Node.release decrements it, so the 'waiting line' seen by JSQ is
population + departures so far."""
import ciw
N = ciw.create_network(
    arrival_distributions=[ciw.dists.Sequential([1.0, 1.0, 100.0]), None, None],
    service_distributions=[ciw.dists.Deterministic(0.1), ciw.dists.Sequential([0.5, 100.0]), ciw.dists.Deterministic(100.0)],
    number_of_servers=[1, float('inf'), float('inf')],
    routing=ciw.routing.NetworkRouting(routers=[ciw.routing.JoinShortestQueue(destinations=[2, 3], tie_break='order'),
                                                ciw.routing.Leave(), ciw.routing.Leave()]),
)
Q = ciw.Simulation(N, node_class=[ciw.Node, ciw.PSNode, ciw.PSNode])
Q.simulate_until_max_time(3.0)
# customer 1 -> PS node 2 at 1.1, leaves at 1.6.  customer 2 at 2.1: both PS nodes empty -> first listed (node 2)
c2 = [i for nd in Q.transitive_nodes for i in nd.all_individuals if i.id_number == 2][0]
print("customer 2 at node", c2.node, [nd.number_in_service for nd in Q.transitive_nodes])
assert c2.node == 2
print("ok")
