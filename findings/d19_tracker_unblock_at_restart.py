"""C17: pre-emptive schedule + blocking: a customer that is blocked when its shift ends is un-blocked and restarted
when the servers return (begin_interrupted_individuals_service), but the state tracker is not told: NaiveBlocking /
MatrixBlocking keep counting it as blocked and later go negative."""
import ciw
N = ciw.create_network(
    arrival_distributions=[ciw.dists.Sequential([0.5, 100.0]), ciw.dists.Sequential([0.1, 100.0])],
    service_distributions=[ciw.dists.Deterministic(1.0), ciw.dists.Deterministic(6.0)],
    number_of_servers=[ciw.Schedule(numbers_of_servers=[1, 0], shift_end_dates=[2.0, 3.0], preemption='restart'), 1],
    queue_capacities=[float('inf'), 0],
    routing=[[0.0, 1.0], [0.0, 0.0]],
)
Q = ciw.Simulation(N, tracker=ciw.trackers.NaiveBlocking())
Q.simulate_until_max_time(3.5)     # blocked at 1.5, interrupted at 2.0, restarted (not blocked any more) at 3.0
n1 = Q.transitive_nodes[0]
truth = (sum(1 for i in n1.all_individuals if not i.is_blocked), sum(1 for i in n1.all_individuals if i.is_blocked))
print(Q.statetracker.hash_state(), truth)
assert Q.statetracker.hash_state()[0] == truth
Q.simulate_until_max_time(12.0)
assert min(min(x) for x in Q.statetracker.hash_state()) >= 0, Q.statetracker.hash_state()
print("ok")
