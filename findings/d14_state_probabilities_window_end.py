"""C17: state_probabilities for an observation window that ends exactly on a state-change instant loses the
interval before that instant (wrong shares; ZeroDivisionError when it was the only interval)."""
import ciw
N = ciw.create_network(
    arrival_distributions=[ciw.dists.Deterministic(1.0)],
    service_distributions=[ciw.dists.Deterministic(0.5)],
    number_of_servers=[1],
)
Q = ciw.Simulation(N, tracker=ciw.trackers.SystemPopulation())
Q.simulate_until_max_time(3.2)
print(Q.statetracker.history)          # 0 on [0,1) 1 on [1,1.5) 0 on [1.5,2) 1 on [2,2.5) 0 on [2.5,3) 1 ...
p = Q.statetracker.state_probabilities(observation_period=(0, 3.0))
print(p)
assert abs(p[0] - 2.0 / 3) < 1e-12 and abs(p[1] - 1.0 / 3) < 1e-12, p
p = Q.statetracker.state_probabilities(observation_period=(0, 1.0))
assert abs(p[0] - 1.0) < 1e-12, p
print("ok")
