"""KNOWN FINDING C09-random-zero-endpoint: random.random() may return exactly 0.0; random_choice then returns the
first element even if its probability is 0."""
import random
import ciw
real = random.random
random.random = lambda: 0.0
try:
    got = ciw.random_choice([1, 2, 3], [0.0, 0.5, 0.5])
finally:
    random.random = real
print(got)
assert got != 1, "a probability-zero alternative was chosen"
