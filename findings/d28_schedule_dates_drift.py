"""C20 (D28): the schedule/slot generator added offset + boundary + k * cycle in binary floating point, so later
cycles drift (0.1 + 3 * 0.3 = 0.9999999999999999).  In exact mode the shift change is read as that decimal: a customer
waiting for the shift that starts at 1.0 begins service at Decimal('0.9999999999999999'), and an event at exactly
Decimal('1.0') no longer coincides with it.  Found by C20 family 'exact sched cycle 0.3' (added after seed C20-g)."""
from decimal import Decimal
import ciw
N = ciw.create_network(arrival_distributions=[ciw.dists.Sequential([0.95, 100.0])], service_distributions=[ciw.dists.Deterministic(0.1)],
                       number_of_servers=[ciw.Schedule(numbers_of_servers=[0, 1], shift_end_dates=[0.1, 0.3])])
Q = ciw.Simulation(N, exact=20)
Q.simulate_until_max_time(3.0)
recs = Q.get_all_records()
print([(str(r.arrival_date), str(r.service_start_date), str(r.exit_date)) for r in recs])
assert recs[0].service_start_date == Decimal("1.0"), recs[0].service_start_date
print("ok")
