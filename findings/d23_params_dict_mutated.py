"""C15: create_network_from_dictionary rewrites the caller's parameter dictionary (priority_classes tuple -> dict):
a second Network built from the SAME parameters silently loses priority pre-emption."""
import ciw
params = {
    'arrival_distributions': {'A': [ciw.dists.Deterministic(1.0)], 'B': [ciw.dists.Deterministic(1.3)]},
    'service_distributions': {'A': [ciw.dists.Deterministic(2.0)], 'B': [ciw.dists.Deterministic(0.5)]},
    'number_of_servers': [1],
    'priority_classes': ({'A': 1, 'B': 0}, ['resume']),
}
N1 = ciw.create_network_from_dictionary(params)
N2 = ciw.create_network_from_dictionary(params)
print(N1.service_centres[0].priority_preempt, N2.service_centres[0].priority_preempt)
assert N1.service_centres[0].priority_preempt == N2.service_centres[0].priority_preempt == 'resume'
print("ok")
