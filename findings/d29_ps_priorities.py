"""C19 (D29, formerly listed as finding C19-ps-priorities; fixed by /repo 24fa53c): limited PS node (capacity 2) with two priority classes: when a place frees, the
customer started is all_individuals[capacity-1] of the priority-flattened list, here a customer that is already
sharing (it gets a fresh requirement) while the waiting high-priority customer is never started."""
import ciw
N = ciw.create_network(
    arrival_distributions={'H': [ciw.dists.Sequential([0.9, 100.0])], 'L': [ciw.dists.Sequential([0.5, 0.2, 100.0])]},
    service_distributions={'H': [ciw.dists.Deterministic(2.0)], 'L': [ciw.dists.Deterministic(2.0)]},
    number_of_servers=[2],
    priority_classes={'H': 0, 'L': 1},
)
Q = ciw.Simulation(N, node_class=ciw.PSNode)
Q.simulate_until_max_time(5.0)     # the first L customer left at 4.3; two customers remain, capacity 2
nd = Q.transitive_nodes[0]
state = [(i.id_number, i.customer_class, i.with_server) for i in nd.all_individuals]
print(state)
assert all(s[2] for s in state), "a place of the PS node is unused while a customer waits"
