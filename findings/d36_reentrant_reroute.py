"""C04, C05 (D36, formerly listed as findings *-reentrant-reroute, priority half; fixed by /repo d6ef662): priority pre-emption with 're-route' where the victim's next node is the SAME
node: the victim re-enters during preempt(), the nested accept starts the pre-emptor on the freed server, and preempt()
then attaches the server to the pre-emptor a second time (two service-time samples for one start)."""
import ciw
draws = []
class S(ciw.dists.Distribution):
    def sample(self, t=None, ind=None):
        draws.append((t, ind.id_number))
        return 3.0
N = ciw.create_network(
    arrival_distributions={'L': [ciw.dists.Sequential([0.5, 100.0])], 'H': [ciw.dists.Sequential([1.0, 100.0])]},
    service_distributions={'L': [S()], 'H': [S()]},
    number_of_servers=[1],
    priority_classes=({'L': 1, 'H': 0}, ['reroute']),
    routing={'L': ciw.routing.ProcessBased(lambda ind, sim: [1]), 'H': ciw.routing.ProcessBased(lambda ind, sim: [])},
)
Q = ciw.Simulation(N)
Q.simulate_until_max_time(2.0)
print(draws)
assert len([d for d in draws if d == (1.0, 2)]) == 1, "the pre-emptor's service was started (sampled) twice at t=1.0"
