"""C11: a customer that was pre-empted earlier ('resume') has its priority raised while waiting and pre-empts a lower
priority customer directly: preempt() gives the pre-emptor a FRESH service sample instead of its remaining time."""
import ciw
samples = []
class S(ciw.dists.Distribution):
    def sample(self, t=None, ind=None):
        samples.append((t, ind.id_number))
        return 4.0
N = ciw.create_network(
    arrival_distributions={'L': [ciw.dists.Sequential([0.5, 0.5, 100.0])], 'H': [ciw.dists.Sequential([2.0, 100.0])]},
    service_distributions={'L': [S()], 'H': [S()]},
    number_of_servers=[2],
    priority_classes=({'L': 1, 'H': 0}, ['resume']),
    class_change_time_distributions={'L': {'H': ciw.dists.Deterministic(1.0)}},
)
Q = ciw.Simulation(N)
Q.simulate_until_max_time(20.0)
print(samples)
# customers 1 and 2 (L) start at 0.5 / 1.0; customer 3 (H) arrives at 2.0 and pre-empts customer 2 (latest start);
# customer 2 waits, becomes H at 3.0 and pre-empts customer 1: it must RESUME (3 time units left), not draw a new sample
assert [s for s in samples if s[1] == 2] == [(1.0, 2)], "customer 2 was given a fresh service time when it resumed"
print("ok")
