"""C14 (D27): pre-emptive schedule + after-service class change that alters the priority + blocking.
A blocked customer (already re-classed A -> B, priority 0 -> 1) loses its server at the shift end, is un-blocked and
restarted when a server returns, finishes service a second time in the same visit and is re-classed again:
change_customer_class overwrote prev_priority_class (the list the customer is filed under) and Node.release crashed with
ValueError: list.remove(x): x not in list.  (side remark of a seeding sub-agent; reproduced by the C14 family
'sched ... + ccm prio + block')"""
import ciw
N = ciw.create_network(
    arrival_distributions={"A": [ciw.dists.Sequential([1.0, 1.0, 1000.0]), None], "B": [None, None]},
    service_distributions={"A": [ciw.dists.Deterministic(1.0), ciw.dists.Deterministic(6.0)], "B": [ciw.dists.Deterministic(1.0), ciw.dists.Deterministic(6.0)]},
    number_of_servers=[ciw.Schedule(numbers_of_servers=[1, 0, 1], shift_end_dates=[4, 5, 100], preemption="restart"), 1],
    queue_capacities=[float("inf"), 0],
    routing={"A": [[0.0, 1.0], [0.0, 0.0]], "B": [[0.0, 1.0], [0.0, 0.0]]},
    class_change_matrices=[{"A": {"A": 0.0, "B": 1.0}, "B": {"A": 1.0, "B": 0.0}}, {"A": {"A": 1.0, "B": 0.0}, "B": {"A": 0.0, "B": 1.0}}],
    priority_classes={"A": 0, "B": 1},
)
Q = ciw.Simulation(N)
Q.simulate_until_max_time(30)     # crashed at t = 8 (customer 2 released after its second end of service)
recs = sorted((r.id_number, r.node, r.record_type, r.arrival_date, r.exit_date) for r in Q.get_all_records())
print(recs)
assert any(r[0] == 2 and r[1] == 2 for r in recs), "customer 2 never reached node 2"
print("ok")
