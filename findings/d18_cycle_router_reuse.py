"""C15: a Network with a Cycle router used for a second Simulation: the cycle position of the first simulation is
kept, so the second simulation routes differently from one on a freshly built Network."""
import ciw


def net():
    return ciw.create_network(
        arrival_distributions=[ciw.dists.Deterministic(1.0), None, None],
        service_distributions=[ciw.dists.Deterministic(0.1)] * 3,
        number_of_servers=[1, 1, 1],
        routing=ciw.routing.NetworkRouting(routers=[ciw.routing.Cycle(cycle=[2, 3, -1]), ciw.routing.Leave(), ciw.routing.Leave()]))


def dests(N):
    Q = ciw.Simulation(N)
    Q.simulate_until_max_time(2.5)
    return [r.destination for r in sorted(Q.get_all_records(), key=lambda r: r.exit_date) if r.node == 1]


N = net()
first = dests(N)
second = dests(N)
print(first, second)
assert first == second == dests(net())
print("ok")
