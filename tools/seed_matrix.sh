#!/bin/sh
# tools/seed_matrix.sh [ids...]  -- regression of the kill matrix: every kept seed against the checks recorded in its meta.json
cd "$(dirname "$0")/.." || exit 2
for d in ${*:-seeded/*}; do
  id=$(basename $d)
  checks=$(/venv/bin/python -c "import json;print(' '.join(json.load(open('seeded/$id/meta.json'))['caught_by']))")
  obs=$(/venv/bin/python -c "import json;print('obsolete' in json.load(open('seeded/$id/meta.json')))")
  [ "$obs" = "True" ] && { echo "$id: (obsolete: neutralised by a later /repo repair, see meta.json)"; continue; }
  [ -z "$checks" ] && { echo "$id: (recorded as not caught)"; continue; }
  for c in $checks; do
    out=$(tools/run_seed.sh seeded/$id/patch.diff $c 2>&1)
    if echo "$out" | grep -q "^VIOLATION"; then echo "$id: caught by $c ($(echo "$out" | grep -m1 clause= | sed 's/ config=.*//'))"; else echo "$id: NOT caught by $c"; echo "$out" | tail -3; fi
  done
done
