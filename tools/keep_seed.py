#!/venv/bin/python
"""tools/keep_seed.py <src dir> <seed id> <property> <caught: comma list of checks|none> <needs...>"""
import sys, os, json, shutil
src, sid, prop, caught = sys.argv[1:5]
needs = " ".join(sys.argv[5:])
dst = os.path.join("/verif/seeded", sid)
os.makedirs(dst, exist_ok=True)
for f in ("patch.diff", "demo.py", "notes.md"):
    if os.path.exists(os.path.join(src, f)):
        shutil.copy(os.path.join(src, f), os.path.join(dst, f))
meta = {
    "id": sid, "breaks_property": prop, "needs_to_manifest": needs,
    "origin": "independent sub-agent given only the property text and a scratch worktree",
    "confirmed": {
        "how": "tools/verify_seed.sh (scratch worktree of /repo HEAD): patch applies, repository suite 330 passed with the change, demo exits non-zero with the change and 0 without",
        "checks_run": "tools/run_seed.sh patch.diff <ID> (scratch copy of /repo/ciw with the patch; CIWMC_TARGET)",
    },
    "caught_by": [c for c in caught.split(",") if c and c != "none"],
}
json.dump(meta, open(os.path.join(dst, "meta.json"), "w"), indent=1)
print("kept", dst)
