#!/venv/bin/python
"""tools/mut.py <relative file under ciw/> <old text> <new text> <ID> [<ID>...]
Apply a one-off textual mutation to a scratch copy of /repo/ciw, optionally run the repository suite on it
(SUITE=1), run the given checks against it (CIWMC_TARGET), delete the copy."""
import sys, os, shutil, subprocess, tempfile
rel, old, new = sys.argv[1:4]
ids = sys.argv[4:]
S = tempfile.mkdtemp(prefix="mut.", dir="/tmp")
try:
    shutil.copytree("/repo/ciw", S + "/repo/ciw")
    p = os.path.join(S, "repo", "ciw", rel)
    s = open(p).read()
    if s.count(old) != 1:
        sys.exit("old text occurs %d times" % s.count(old))
    open(p, "w").write(s.replace(old, new))
    if os.environ.get("SUITE"):
        r = subprocess.run("cd %s/repo && /venv/bin/python -m pytest -q -p no:cacheprovider --timeout=900 ciw/tests 2>&1 | grep -E 'passed|failed' | tail -1" % S, shell=True, capture_output=True, text=True)
        print("suite:", r.stdout.strip())
    env = dict(os.environ, CIWMC_TARGET=S + "/repo", CIWMC_OUT=S + "/out")
    for i in ids:
        r = subprocess.run(["/verif/check", i, "--tier", os.environ.get("TIER", "quick")], env=env, capture_output=True, text=True)
        for l in r.stdout.splitlines():
            if l.startswith(("VIOLATION", "  clause", "HARNESS")) or " quick:" in l or " thorough:" in l:
                print(l[:300])
        print("exit(%s)=%d" % (i, r.returncode))
finally:
    shutil.rmtree(S, ignore_errors=True)
