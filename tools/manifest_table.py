CHECKS = {
    "C01": {
        "text": "Every answer sequence (all inter-arrival/service/batch/patience choices from dyadic menus, all routing outcomes, all tie-break resolutions) of each configuration of the focused families is executed on the real engine and the conservation invariant is evaluated after every event; the universal feature-combination family is covered up to a deviation bound.",
        "ref": "DESIGN.md §7 C01",
        "note": "bounded populations (K customers per stream), dyadic menus, horizon T; observation through the public tracker seam",
        "technique": "stateless exhaustive enumeration of environment answers of the real implementation (explicit choice-point DFS, deviation-bounded)",
    },
}
PENDING = {}
