CHECKS = {
    "C01": {
        "text": "Every answer sequence (all inter-arrival/service/batch/patience choices from dyadic menus, all routing outcomes, all tie-break resolutions) of each configuration of the focused families is executed on the real engine and the conservation invariant is evaluated after every event; the universal feature-combination family is covered up to a deviation bound.",
        "ref": "DESIGN.md §7 C01",
        "note": "bounded populations (K customers per stream), dyadic menus, horizon T; observation through the public tracker seam",
        "technique": "stateless exhaustive enumeration of environment answers of the real implementation (explicit choice-point DFS, deviation-bounded)",
    },
    "C02": {
        "text": "Every answer sequence of the focused families (ties everywhere, zero durations, pre-emption x reneging, pre-emptive schedules x blocking, slotted nodes with arrivals at t=0) and every sequence with at most D deviations of the universal feature-combination family is executed; after every event the clock, every pending date and every new data record are checked.",
        "ref": "DESIGN.md §7 C02",
        "note": "dyadic menus (exact float arithmetic), bounded populations and horizon; pending dates read from documented attributes",
        "technique": "stateless exhaustive enumeration of environment answers of the real implementation, per-event invariant monitor",
    },
    "C03": {
        "text": "Record chains of every customer are checked after every event of every explored execution (focused routing/blocking/pre-emption/reneging families completely, universal family up to the deviation bound) against the arrival instants and routing decisions observed at the seams.",
        "ref": "DESIGN.md §7 C03",
        "note": "bounded populations and horizon; birth node/instant from the arrival event seen at the node_class seam",
        "technique": "stateless exhaustive enumeration of environment answers of the real implementation, per-customer journey oracle",
    },
    "C14": {
        "text": "Every documented feature alone and in all compatible pairs (triples in the thorough tier) on three topologies, with every entry point (max_time at/between/after event instants, max_customers x 4 methods), every answer sequence with at most D deviations: no exception escapes and the stop condition is exact.",
        "ref": "DESIGN.md §7 C14",
        "note": "valid = documented combinations accepted by create_network; deviation bound D; executions cut by the harness event bound are not judged on the stop condition",
        "technique": "deviation-bounded exhaustive enumeration of environment answers over a combinatorial configuration family, real implementation",
    },
    "C04": {
        "text": "Complete answer trees of the server families (1-3 servers, server-priority function, non-pre-emptive and pre-emptive schedules with zero-server shifts and offsets, blocking, priorities, reneging) plus the universal family up to the deviation bound; after every event the server<->customer relation is checked from the server side, the roster against a modular-arithmetic timetable, per-server service intervals for overlap, and at the end the reported utilisation against an attach/detach seam log.",
        "ref": "DESIGN.md §7 C04",
        "note": "utilisation clause only without pre-emption and for simulate_until_max_time; bounded populations/horizon",
        "technique": "stateless exhaustive enumeration of environment answers of the real implementation, per-event invariant + seam-log reference model",
    },
    "C05": {
        "text": "Complete answer trees over disciplines x {priorities, pre-emptive priorities, schedules of every pre-emption option, reneging, class change while waiting, blocking} plus the universal family: after every event no rostered server is idle while a customer present is not held by a server.",
        "ref": "DESIGN.md §7 C05",
        "note": "server-side definition of in service; slotted/PS/infinite-server nodes outside the statement",
        "technique": "stateless exhaustive enumeration of environment answers of the real implementation, per-event invariant monitor",
    },
    "C06": {
        "text": "Complete answer trees for every combination of servers {0,1,2,inf} x queue capacity {0,1,2} x system capacity {1,2,3}, batches {2,1,0}, two classes arriving at the same instant, baulking on top, two-node networks: population bounds after every event and a sequential admission oracle for every arrival event (rejected iff node or system full at that member's turn; rejection record contents).",
        "ref": "DESIGN.md §7 C06",
        "note": "no re-route option; schedule/slotted nodes with finite capacity are not judged (capacity not a constant)",
        "technique": "stateless exhaustive enumeration of environment answers of the real implementation, admission reference model replayed per arrival event",
    },
    "C07": {
        "text": "Complete answer trees over tandem / self-loop / 2-cycle / fork-join / two-upstream topologies with 1-2 servers and capacities 0/1, priorities, non-pre-emptive schedules upstream, reneging at the destination: at the moment of every block/release decision (tracker seam) the destination's true population is compared with its capacity, releases of blocked customers are compared with a FIFO shadow queue, and after every event no customer is left blocked while its destination has space; time_blocked is recomputed.",
        "ref": "DESIGN.md §7 C07",
        "note": "no pre-emption in the families (statement's quantifier); capacity = fixed servers + queue capacity",
        "technique": "stateless exhaustive enumeration of environment answers of the real implementation, FIFO shadow reference model + moment-of-decision checks",
    },
    "C08": {
        "text": "Complete answer trees over 1-3 classes on 1-3 priority levels, FIFO/LIFO/SIRO, 1-2 servers, non-pre-emptive and pre-emptive priorities, starts triggered by unblocking / shift change / class change, slotted nodes: at every call of the discipline the candidate list is compared with the true waiting customers of the best priority class, and at every service start (attach seam) the starter with the discipline's pick and the priority/FIFO rule.",
        "ref": "DESIGN.md §7 C08",
        "note": "pre-emptive schedules excluded (C12 rule); customers whose priority changed while waiting only under the cross-priority clause",
        "technique": "stateless exhaustive enumeration of environment answers of the real implementation, moment-of-choice oracle at the discipline and attach seams",
    },
    "C09": {
        "text": "Complete (or deviation-bounded) answer trees for every routing object (TransitionMatrix with zero cells, Direct/Leave/Cycle/Probabilistic/JSQ/LB node routers, ProcessBased, FlexibleProcessBased any/all x random/jsq/lb), class-change matrices with zero cells, JSQ/LB towards PS/infinite/slotted/multi-server nodes and after pre-emptive re-routing; every decision is checked at the router seam against the specification and the true populations; explicit end-point answers 0.0 and 1-2^-53 of random() in a dedicated family.",
        "ref": "DESIGN.md §7 C09",
        "note": "waiting line = present minus in service (server side) at the decision instant",
        "technique": "stateless exhaustive enumeration of environment answers of the real implementation, routing-decision oracle at the router seam",
    },
    "C10": {
        "text": "Complete answer trees with logging menu distributions (two streams, two classes, batches 0/1/2, time- and state-dependent menus, all ordinary node kinds): arrival instants are the left-fold partial sums of the stream's own samples, batch sizes and service durations equal the logged samples; invalid-answer family: exactly one invalid answer at each sample position of the default execution must raise before the next event.",
        "ref": "DESIGN.md §7 C10",
        "note": "service clause at ordinary nodes without pre-emption; 'error' = any exception",
        "technique": "stateless exhaustive enumeration of environment answers (incl. one injected invalid answer per sample position) of the real implementation, sample-log audit",
    },
    "C11": {
        "text": "Complete answer trees for pre-emptive priorities resume/restart/resample/reroute with 1-3 servers, 2-3 levels, priority raised while waiting: no priority inversion after any event, victim = lowest priority / most recently started (checked at the detach seam), and per completed visit the resume/restart/resample time identities against the logged samples.",
        "ref": "DESIGN.md §7 C11",
        "note": "nodes whose customers are never blocked; priority pre-emption only",
        "technique": "stateless exhaustive enumeration of environment answers of the real implementation, per-event invariant + per-visit sample identities",
    },
    "C12": {
        "text": "Complete answer trees over schedules {[1,0],[2,0,1],[1,2],[0,1]} x offsets x all five pre-emption options over 2.5 cycles and slot tables x offsets x capacitated/pre-emption options: roster and next shift change against a modular-arithmetic timetable after every event, no start on off-duty servers or while zero are scheduled, overtime completion, interruption exactly at the shift end, interrupted customers restarted first in (priority, arrival) order, slot instants, per-slot starts and capacities.",
        "ref": "DESIGN.md §7 C12",
        "note": "timetable in exact rationals; capacitated non-pre-emptive slots: new starts <= size - in service before",
        "technique": "stateless exhaustive enumeration of environment answers of the real implementation against a timetable reference model",
    },
    "C13": {
        "text": "Complete answer trees for reneging (1-2 servers, per-class patience, priorities, pre-emption, zero-server shifts, capacities, jockeying to another node, ties with service ends and arrivals) and baulking (by-n and free menus, batches, two nodes/classes): nobody waits beyond arrival+patience, renege instant/target/no-service-start, nobody in service reneges (seam), baulking function argument = true population, p=0 never / p=1 always, baulk record and accepted counter.",
        "ref": "DESIGN.md §7 C13",
        "note": "a customer whose service started once in the visit is no longer subject to its patience",
        "technique": "stateless exhaustive enumeration of environment answers of the real implementation, sample-log and seam oracles",
    },
}
PENDING = {}
