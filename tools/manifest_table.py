CHECKS = {
    "C01": {
        "text": "Every answer sequence (all inter-arrival/service/batch/patience choices from dyadic menus, all routing outcomes, all tie-break resolutions) of each configuration of the focused families is executed on the real engine and the conservation invariant is evaluated after every event; the universal feature-combination family is covered up to a deviation bound.",
        "ref": "DESIGN.md §7 C01",
        "note": "bounded populations (K customers per stream), dyadic menus, horizon T; observation through the public tracker seam",
        "technique": "stateless exhaustive enumeration of environment answers of the real implementation (explicit choice-point DFS, deviation-bounded)",
    },
    "C02": {
        "text": "Every answer sequence of the focused families (ties everywhere, zero durations, pre-emption x reneging, pre-emptive schedules x blocking, slotted nodes with arrivals at t=0) and every sequence with at most D deviations of the universal feature-combination family is executed; after every event the clock, every pending date and every new data record are checked.",
        "ref": "DESIGN.md §7 C02",
        "note": "dyadic menus (exact float arithmetic), bounded populations and horizon; pending dates read from documented attributes",
        "technique": "stateless exhaustive enumeration of environment answers of the real implementation, per-event invariant monitor",
    },
    "C03": {
        "text": "Record chains of every customer are checked after every event of every explored execution (focused routing/blocking/pre-emption/reneging families completely, universal family up to the deviation bound) against the arrival instants and routing decisions observed at the seams.",
        "ref": "DESIGN.md §7 C03",
        "note": "bounded populations and horizon; birth node/instant from the arrival event seen at the node_class seam",
        "technique": "stateless exhaustive enumeration of environment answers of the real implementation, per-customer journey oracle",
    },
    "C14": {
        "text": "Every documented feature alone and in all compatible pairs (triples in the thorough tier) on three topologies, with every entry point (max_time at/between/after event instants, max_customers x 4 methods), every answer sequence with at most D deviations: no exception escapes and the stop condition is exact.",
        "ref": "DESIGN.md §7 C14",
        "note": "valid = documented combinations accepted by create_network; deviation bound D; executions cut by the harness event bound are not judged on the stop condition",
        "technique": "deviation-bounded exhaustive enumeration of environment answers over a combinatorial configuration family, real implementation",
    },
}
PENDING = {}
