#!/bin/sh
# tools/run_seed.sh <patch.diff> <ID> [<ID>...]   -- run checks against a scratch copy of /repo with the patch applied
# (nothing in /repo or /verif/evidence is touched; the scratch copy is removed afterwards)
P=$(readlink -f "$1"); shift
S=$(mktemp -d /tmp/seedrun.XXXXXX)
mkdir -p "$S/repo" "$S/out"
cp -r /repo/ciw "$S/repo/ciw"
# (seeds were written against earlier commits of /repo: fall back to patch(1) with fuzz when the context has moved)
( cd "$S/repo" && git init -q . >/dev/null 2>&1 && { git apply "$P" 2>/dev/null || patch -p1 -F 3 -s --no-backup-if-mismatch < "$P"; } ) || { echo "patch does not apply"; rm -rf "$S"; exit 3; }
/venv/bin/python - "$S/repo" <<'PY' || { echo "patched tree does not compile (a fuzzy hunk landed in the wrong place?)"; rm -rf "$S"; exit 3; }
import sys, glob
for f in glob.glob(sys.argv[1] + "/ciw/**/*.py", recursive=True):
    compile(open(f).read(), f, "exec")
PY
cd "$(dirname "$0")/.." || exit 2
for id in "$@"; do
  CIWMC_TARGET="$S/repo" CIWMC_OUT="$S/out" ./check "$id" --tier "${TIER:-quick}" 2>&1 | grep -v "^WARNING conda" | grep -E "VIOLATION|KNOWN|HARNESS|clause=|quick:|thorough:" | cut -c1-400
  echo "exit($id)=$?"
done
rm -rf "$S"
