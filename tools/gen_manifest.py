#!/venv/bin/python
"""Regenerate /verif/MANIFEST.json from the table below (keeps it valid at all times)."""
import json, os, sys
ROOT = os.path.dirname(os.path.dirname(os.path.abspath(__file__)))
sys.path.insert(0, ROOT)
from tools.manifest_table import CHECKS, PENDING

props = [json.loads(l)["id"] for l in open(os.path.join(ROOT, "properties.jsonl"))]
checks = []
for pid in props:
    if pid not in CHECKS:
        continue
    c = CHECKS[pid]
    checks.append({
        "property_id": pid,
        "quick_cmd": "./check %s --tier quick" % pid,
        "thorough_cmd": "./check %s --tier thorough" % pid,
        "evidence_file": "/verif/evidence/%s.json" % pid,
        "replay_cmd_template": "./check %s --replay {path}" % pid,
        "engine": c.get("engine", "ciwmc-stateless"),
        "level_claimed": {"category": "model_checking", "text": c["text"], "design_ref": c["ref"]},
        "level_note": c["note"],
        "technique": c["technique"],
    })
m = {
    "version": 1,
    "setup_cmd": "true",
    "hooks": {
        "guard": "CIW_VERIF",
        "enable": "none needed: all observation goes through ciw's public extension points (tracker=, deadlock_detector=, node_class=, custom distributions/routers/disciplines); random.random is replaced in the checking process before ciw is imported",
        "baseline_off_cmd": "cd /repo && /venv/bin/python -m pytest -ra -q -p no:cacheprovider --timeout=900 --continue-on-collection-errors",
        "source_commits": [],
        "add_only": True,
    },
    "engines": [
        {"name": "ciwmc-stateless", "path": "/verif/ciwmc/explore.py",
         "serves_properties": sorted(k for k in CHECKS if k != "C15"),
         "kind_free_text": "stateless exhaustive DFS over all environment answers (samples, routing, tie-breaks) of the real ciw.Simulation, deviation-bounded on large families, with canonical-state accounting and replay-determinism checks"},
        {"name": "ciwmc-explicit", "path": "/verif/ciwmc/explicit.py",
         "serves_properties": ["C01", "C02", "C03", "C04", "C05", "C06", "C07", "C11", "C12", "C13", "C17", "C18"],
         "kind_free_text": "explicit-state breadth-first search over the canonical states of the real engine (replay of answer histories, one more event per level, deduplication on canonical state + pending tie-break), run by the same ./check command after the stateless pass; complete when the frontier empties; cross-checked against the stateless engine's states"},
        {"name": "ciwmc-histories", "path": "/verif/ciwmc/props/c15.py", "serves_properties": ["C15"],
         "kind_free_text": "exhaustive enumeration of bounded histories of public-API operations on the real generators, fresh-interpreter reference digests"},
    ],
    "checks": checks,
    "not_applicable": [{"property_id": p, "reason": PENDING.get(p, "check not built yet")} for p in props if p not in CHECKS],
    "notes": "see /verif/DESIGN.md; evidence written by ./check on every run; known findings in /verif/KNOWN_FINDINGS.json",
}
json.dump(m, open(os.path.join(ROOT, "MANIFEST.json"), "w"), indent=1)
print("MANIFEST.json:", len(checks), "checks,", len(m["not_applicable"]), "not_applicable")
