#!/bin/sh
# tools/all_checks.sh <tier> [ids...]   run checks sequentially into a scratch output dir (does not touch /verif/evidence)
TIER=${1:-quick}; shift
IDS=${*:-C01 C02 C03 C04 C05 C06 C07 C08 C09 C10 C11 C12 C13 C14 C15 C16 C17 C18 C19 C20}
OUT=$(mktemp -d /tmp/allchecks.XXXXXX)
for id in $IDS; do
  s=$(date +%s)
  CIWMC_OUT=$OUT timeout 7200 ./check $id --tier $TIER 2>&1 | grep -v "^WARNING conda" | grep -E "VIOLATION|HARNESS|clause=|$TIER:|KNOWN" | cut -c1-260
  echo "== $id exit=$? $(( $(date +%s) - s ))s"
done
rm -rf $OUT
