#!/bin/sh
# run the repository's pinned test suite on a tree (default /repo); prints the summary line
T=${1:-/repo}
cd "$T" && /venv/bin/python -m pytest -q -p no:cacheprovider --timeout=900 2>&1 | grep -E "passed|failed|error" | tail -2
