#!/bin/sh
# tools/verify_seed.sh <seed dir with patch.diff + demo.py>  -- confirm: applies on /repo HEAD, suite passes with it,
# demo fails with it and passes without it.  Uses a scratch worktree that is removed afterwards.
D=$(readlink -f "$1")
W=$(mktemp -d /tmp/vseed.XXXXXX); rmdir "$W"
git -C /repo worktree add -q --detach "$W" HEAD || exit 3
cd "$W" || exit 3
PYTHONPATH="$W" /venv/bin/python "$D/demo.py" >/dev/null 2>&1; echo "demo without change: exit $?"
git apply "$D/patch.diff" || { echo "PATCH DOES NOT APPLY"; cd /; git -C /repo worktree remove --force "$W"; exit 3; }
/venv/bin/python -c "import ciw,sys; assert ciw.__file__.startswith('$W'), ciw.__file__"
/venv/bin/python -m pytest -q -p no:cacheprovider --timeout=900 ciw/tests 2>&1 | grep -E "passed|failed" | tail -1
PYTHONPATH="$W" /venv/bin/python "$D/demo.py" >/dev/null 2>&1; echo "demo with change: exit $?"
cd /; git -C /repo worktree remove --force "$W"
